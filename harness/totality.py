"""Executions for C06 / C07: token lines and stored messages enumerated by TLC
(CmdTokens.tla), concretised and pushed through the real server under a watchdog;
each connection transcript becomes one trace for Trace_Total.tla."""

from __future__ import annotations

import signal

from . import respparse as rp
from .server import World


class Hang(KeyboardInterrupt):
    """raised by the watchdog; derives from KeyboardInterrupt so that neither pymap's
    `except Exception` nor asyncio's task step swallow it"""


def _alarm(signum, frame):
    raise Hang()


class Watchdog:
    """wall-clock guard that raises inside a spinning Python loop"""

    def __init__(self, seconds: float = 3.0):
        self.seconds = seconds

    def __enter__(self):
        self.old = signal.signal(signal.SIGALRM, _alarm)
        signal.setitimer(signal.ITIMER_REAL, self.seconds)
        return self

    def __exit__(self, *a):
        signal.setitimer(signal.ITIMER_REAL, 0)
        signal.signal(signal.SIGALRM, self.old)
        return False


# ---------------------------------------------------------------------------
# concretisation.  A token is bytes, or a tuple (announce, payload) for a
# synchronising literal (the payload is only sent after a continuation request).

ARG = {
    'ATOM': [b'abc', b'INBOX', b'x1'],
    'QUOTED': [b'"a b"', b'""', b'"INBOX"'],
    'QUOTED_OPEN': [b'"abc'],
    'QUOTED_ESC': [b'"a\\"b\\\\"', b'"\\x"'],
    'LIT_SYNC': [(b'{3}', b'abc'), (b'{5}', b'INBOX')],
    'LIT_PLUS': [b'{3+}\r\nabc', b'{5+}\r\nINBOX'],
    'LIT_ZERO': [b'{0+}\r\n', (b'{0}', b'')],
    'LIT_HUGE': [b'{99999999999}', b'{70000+}\r\n' + b'x' * 70000],
    'LIT_BAD': [b'{-1}', b'{a}', b'{3', b'{}'],
    'LIT_BIN': [b'~{3+}\r\na\x00b'],
    'LIST_EMPTY': [b'()'],
    'LIST_OPEN': [b'(a', b'(a (b'],
    'LIST_DEEP': [b'(' * 200 + b'a' + b')' * 200, b'(' * 2000],
    'NUM': [b'1', b'0'],
    'NUM_HUGE': [b'99999999999999999999', b'4294967296'],
    'SEQSET': [b'1:*', b'1,2:3', b'*:1'],
    'SEQSET_BAD': [b'1:', b':1', b'1,,2', b'0'],
    'STAR': [b'*', b'%', b'*%*%*%*%*%b', b'*a*a*a*a*a*a*a*a*a*a*a*a*b', b'%*%*%*%*%*%*%*%*%*%zz'],
    'FLAGLIST': [b'(\\Seen)', b'(\\Seen \\Deleted $kw)'],
    'FLAG_BAD': [b'(\\)', b'(\\Seen', b'(\\*)'],
    'MBX_INBOX': [b'INBOX', b'inbox', b'Sent'],
    'MBX_UTF7': [b'&AOk-', b'a&AOk-b'],
    'MBX_UTF7_OPEN': [b'&AOk', b'x&', b'&-&'],
    'MBX_AMP': [b'a&b', b'&&', b'&AOkA-'],
    'EIGHTBIT': [b'\xe9\xff', b'caf\xc3\xa9'],
    'NULBYTE': [b'a\x00b', b'"a\x00b"'],
    'BAD_UTF8': [b'"\xc3\x28"', b'\xff\xfe'],
    'DATE': [b'"01-Jan-2024 00:00:00 +0000"', b'1-Jan-2024'],
    'DATE_BAD': [b'"32-Foo-2024 25:61:61 +9999"', b'99-Jan-0000'],
    'SECTION': [b'BODY[]', b'BODY.PEEK[1.2.HEADER]<0.10>', b'BINARY.SIZE[1]'],
    'SECTION_OPEN': [b'BODY[1.', b'BODY[]<1', b'BODY[HEADER.FIELDS ('],
    'FETCHATT': [b'(UID FLAGS BODY.PEEK[HEADER.FIELDS (X)])', b'ALL', b'(ENVELOPE BODYSTRUCTURE)'],
    'SEARCHKEY': [b'ALL', b'SEEN', b'FROM x'] + [
        # every key that takes an argument, with an octet >= 0x80 inside a quoted argument
        k + b' "' + v + b'"' for k, v in
        [(k, b'1-Jan-2020\xe9') for k in (b'BEFORE', b'ON', b'SINCE', b'SENTBEFORE', b'SENTON', b'SENTSINCE')]
        + [(b'ON', b'1-J\xffan-2020'), (b'LARGER', b'1\xe9'), (b'UID', b'1\xe9'), (b'KEYWORD', b'k\xe9'),
           (b'UNKEYWORD', b'k\xe9'), (b'HEADER "X-\xe9"', b'v'), (b'HEADER X', b'v\xe9'), (b'SUBJECT', b'\xe9'),
           (b'BODY', b'\xff\xfe'), (b'TEXT', b'\xc3'), (b'FROM', b'\xe9'), (b'TO', b'\xe9'), (b'CC', b'\xe9'),
           (b'BCC', b'\xe9'), (b'SMALLER', b'\xb2')]],
    'SEARCH_NESTED': [b'OR NOT SEEN (OR DELETED NOT ALL)', b'NOT NOT SEEN', b'(((((ALL)))))',
                      b'CHARSET X-UNKNOWN ALL',
                      b'OR ALL NOT ' * 450 + b'ALL',            # parses; deep for whatever walks it
                      b'OR ' * 495 + b'ALL ' * 495 + b'ALL', b'NOT ' * 900 + b'ALL'],
    'HEADERKEY_8BIT': [b'HEADER "X-\xe9" "v"', b'HEADER {3+}\r\nX-\xe9 v'],
    'STOREITEM': [b'+FLAGS.SILENT', b'FLAGS'],
    'NOSPACE': [b''],      # glued to the previous token: handled by the joiner
    'TRAILSP': [b' '],
    'BARELF': [b'\n'],
    'LONG': [b'a' * 30000, b'"' + b'b' * 30000 + b'"',
             # longer than the stream reader's limit (64 KiB)
             b'c' * 70000, b'"' + b'd' * 140000 + b'"'],
    # tokens of the grammar-shaped lines
    'NUM_DIGITS': [b'9' * 5000, b'1' + b'0' * 4400],       # beyond Python's int digit limit
    'LIT_DIGITS': [b'{' + b'9' * 5000 + b'+}', b'{' + b'1' * 4400 + b'}'],
    'CHARSET_ODD': [b'CHARSET undefined ALL', b'CHARSET "\xff" ALL', b'CHARSET idna SUBJECT x',
                    b'CHARSET rot13 TEXT x', b'CHARSET hex BODY zz', b'CHARSET base64 TEXT eA==',
                    b'CHARSET utf-16 SUBJECT abc', b'CHARSET punycode FROM x-',
                    b'CHARSET unicode_escape TEXT "\\x"', b'CHARSET {3+}\r\nX\nY ALL',
                    b'CHARSET "" ALL', b'CHARSET utf-7 SUBJECT +', b'CHARSET zlib TEXT x'],
    'CHARSET_8BIT': [b'CHARSET utf-8 HEADER "S\xc3\xbcb" x', b'CHARSET utf-8 SUBJECT {2+}\r\n\xc3\xa9',
                     b'CHARSET utf-8 TEXT {2+}\r\n\xff\xfe', b'CHARSET latin-1 BODY {1+}\r\n\xe9',
                     b'CHARSET us-ascii FROM {2+}\r\n\xc3\xa9', b'CHARSET utf-8 KEYWORD \xc3\xa9',
                     b'CHARSET utf-8 OR FROM {1+}\r\n\xff TO x'],
    'STATUSLIST': [b'(MESSAGES UIDNEXT)', b'(MESSAGES RECENT UIDNEXT UIDVALIDITY UNSEEN)'],
    'LIT_MSG': [b'{26+}\r\nSubject: t\r\n\r\nhello you\r\n', (b'{11}', b'A: b\r\n\r\nxy\n')],
    'MBX_OTHER': [b'Sent', b'Trash', b'"Sent"'],
    'W_FETCH': [b'FETCH', b'fetch'], 'W_STORE': [b'STORE'], 'W_COPY': [b'COPY'],
    'W_MOVE': [b'MOVE'], 'W_SEARCH': [b'SEARCH'], 'W_EXPUNGE': [b'EXPUNGE'],
    'SASL_MECH': [b'PLAIN', b'LOGIN', b'plain', b'PLAIN //7/AP8A/w==', b'PLAIN ====',
                  b'LOGIN //4=', b'PLAIN {4+}\r\n\xff\xfe\x00\xff'],
    'ENABLE_ARG': [b'CONDSTORE', b'UTF8=ACCEPT'],
    'ZONE_ODD': [b'"01-Jan-2020 00:00:00 +010030"', b'"01-Jan-2020 00:00:00 -9959"',
                 b'" 1-Jan-2020 00:00:00 +2400"', b'"01-jan-2020 23:59:60 +0000"'],
    'SECTION_ODDNAME': [b'BODY.PEEK[HEADER.FIELDS ({3+}\r\nA\nB)]', b'BODY[HEADER.FIELDS ("a\\"b")]',
                        b'BODY.PEEK[HEADER.FIELDS ({3+}\r\nA\x00B X)]', b'BODY[HEADER.FIELDS.NOT ("\xc3\xa9")]',
                        b'BODY[1.HEADER.FIELDS ({1+}\r\n\r)]'],
    # managesieve
    'SCRIPT_OK': [b'{6+}\r\nkeep;\n', b'"keep;"'],
    'SCRIPT_BAD': [b'{5+}\r\nbogus', b'"if"'],
}

LINE = {
    'HDR': [b'X-Test: value\r\n'],
    'HDR_SUBJECT_CR': [b'Subject: a\rb\r\n', b'Subject: \xe9\xff\r\n'],
    'HDR_CT_MULTI': [b'Content-Type: multipart/mixed; boundary="BB"\r\n'],
    'HDR_CT_MULTI_NOBOUND': [b'Content-Type: multipart/mixed\r\n'],
    'HDR_CT_RFC822': [b'Content-Type: message/rfc822\r\n'],
    'HDR_CT_TEXT_PARAMS': [b'Content-Type: text/plain; charset="x\\"y"; a=b\r\n',
                           b'Content-Type: text/\r\n', b'Content-Type: ;;;=\r\n'],
    'HDR_CTE_B64': [b'Content-Transfer-Encoding: base64\r\n'],
    'HDR_CTE_QP': [b'Content-Transfer-Encoding: quoted-printable\r\n'],
    'HDR_NOCOLON': [b'this is not a header\r\n'],
    'HDR_ENCWORD': [b'Subject: =?utf-8?B?w6k=?= =?bogus?X?zz?=\r\n'],
    'HDR_DATE_BAD': [b'Date: not a date\r\n', b'Date: Mon, 99 Foo 99999 99:99:99 +9999\r\n'],
    'HDR_ADDR_BAD': [b'From: <<>>@, "x\r\n', b'To: a@b, (comment, <c@d>\r\n'],
    'FOLD': [b' folded continuation\r\n', b'\tfolded\r\n'],
    'BLANK': [b'\r\n'],
    'WSONLY': [b' \r\n', b' '],
    'TEXT': [b'hello world\r\n'],
    'TEXT_8BIT': [b'caf\xc3\xa9 \xff\xfe\r\n'],
    'TEXT_NUL': [b'a\x00b\r\n'],
    'BOUNDARY': [b'--BB\r\n'],
    'ENDBOUNDARY': [b'--BB--\r\n'],
    'BARECR': [b'a\rb\r\n', b'x\r'],
    'LONGLINE': [b'y' * 5000 + b'\r\n'],
    'NOEOL': [b'no end of line'],
}


def variants(tokens) -> int:
    """how many concretisations it takes to use every representative of every token once"""
    return max([1] + [len(ARG[t]) for t in tokens[1:]])


def concretise_line(tokens, rng, variant: int | None = None) -> list:
    """-> chunks: list of bytes; a chunk boundary is where the client waits for a
    continuation request before going on (synchronising literal).  variant k: the
    k-th representative (cyclically) of every token instead of a random one."""
    word = tokens[0]
    cur = bytearray(word.encode() if rng.random() < 0.8 else word.lower().encode())
    chunks = []
    glue = False
    for t in tokens[1:]:
        v = rng.choice(ARG[t]) if variant is None else ARG[t][variant % len(ARG[t])]
        if t == 'NOSPACE':
            glue = True
            continue
        if t == 'BARELF':
            cur += b'\n'
            glue = True
            continue
        if not glue:
            cur += b' '
        glue = False
        if isinstance(v, tuple):
            cur += v[0] + b'\r\n'
            chunks.append(bytes(cur))
            cur = bytearray(v[1])
        else:
            cur += v
    cur += b'\r\n'
    chunks.append(bytes(cur))
    return chunks


HDRVAL = {
    'plain': [b'plain value'],
    'empty': [b''],
    'ws': [b'   ', b'\t'],
    'eightbit': [b'caf\xe9 \xff\xfe', b'\xc3\xa9t\xc3\xa9'],
    'nul': [b'a\x00b'],
    'barecr': [b'a\rb', b'a\r'],
    'encword': [b'=?utf-8?B?w6k=?= =?iso-8859-1?Q?=E9?=', b'=?utf-8?q?J=C3=B6rg?= <j@example.com>'],
    'encword_bad': [b'=?bogus?X?zz?=', b'=?utf-8?q?J=F6rg?= <j@example.com>', b'=?utf-8?B?!!!?=',
                    b'=?utf-8?B?w6k', b'=?unknown-8bit?q?=FF?='],
    'addr1': [b'A B <a@example.com>', b'a@example.com'],
    'addr_multi': [b'a@b, c@d', b'A <a@b.c>, "D, E" <d@e.f>, g@h.i'],
    'addr_group': [b'Team: a@b, C <c@d>;', b'undisclosed-recipients:;, x@y'],
    'addr_group_empty': [b'Nobody:;', b':;'],
    'addr_8bit': [b'"J\xf6rg" <j@example.com>', b'J\xc3\xb6rg <j\xf6@ex\xe4mple.com>'],
    'addr_broken': [b'<<>>@, "x', b'a@b, (comment, <c@d>', b'@', b'<a@b', b'a b c', b'"\\" <>'],
    'addr_route': [b'<@relay1,@relay2:a@b>', b'A (comment (nested)) <a(c)@b(d)>'],
    're_deep': [b'Re: ' * 3000 + b'x', b'Fwd: ' * 2500 + b'Re: [list] ' * 200 + b'y',
                b'<' * 3000 + b'a@b' + b'>' * 3000],
    'long': [b'z' * 20000, b'word ' * 4000],
    'folded': [b'a\r\n b\r\n\tc\r\n  d', b'\r\n folded-from-start'],
    'quoted_odd': [b'"unterminated', b'"a\\"b" c"', b'\\', b'"\\'],
    'date_ok': [b'Mon, 1 Jan 2024 00:00:00 +0000', b'1 Jan 24 00:00 GMT'],
    'date_bad': [b'not a date', b'Mon, 99 Foo 99999 99:99:99 +9999', b'1 Jan 0001 00:00:00 -2359',
                 b'31 Dec 9999 23:59:59 +2359', b'1 Jan 2024 00:00:00 +010030'],
    'msgid': [b'<id1@example.com>', b'<a@b> <c@d>'],
    'msgid_bad': [b'<unterminated', b'no brackets', b'<>', b'<a@b><c@d', b'<' + b'x' * 5000 + b'@y>',
                  # never closed, followed by a long run without '<' '>' '"': whatever tries every
                  # way to split the run does not come back
                  b'<CAF3q8w7k2Zr5Yv1mN0pLx9TbUeHdGsJ4.list@mail.example.com',
                  b'<a@b> <' + b'y' * 80, b'<"a>b"@example.com>', b'<"never closed @example.com>' + b' z' * 40,
                  b'<' * 60, b'<a@b' + b' ' * 60 + b'x'],
    'ct_multi': [b'multipart/mixed; boundary="BB"'],
    'ct_multi_nobound': [b'multipart/mixed', b'multipart/mixed; boundary=""', b'multipart/; boundary=BB'],
    'ct_rfc822': [b'message/rfc822', b'message/global'],
    'ct_params_odd': [b'text/plain; charset="x\\"y"; a=b', b'text/', b';;;=', b'text/plain; charset',
                      b'text/plain; name*=utf-8\'\'%E9%FF; name*0="a"; name*1="b"', b'/', b'text/plain;' + b' a=b;' * 500],
    'cte_b64': [b'base64'],
    'cte_qp': [b'quoted-printable'],
    'cte_unknown': [b'x-foo', b'BASE64 (comment)', b'7bit; x=y', b''],
    'disp': [b'attachment; filename="x.txt"', b'inline'],
    'disp_odd': [b'; filename=x', b'attachment; filename*=utf-8\'\'%FF', b'attachment; filename="a\\"b\r\n c"',
                 b'attachment; =;;'],
    'lang_list': [b'en, fr (french), de', b'en'],
    'semicolons': [b';;;;', b'a;b;c=;=d'],
    'comment': [b'(only a comment)', b'(unterminated', b'((nested) (comment)) value'],
    'utf8': [b'\xe2\x82\xac \xf0\x9f\x98\x80 <a@b>', b'\xef\xbb\xbfbom'],
}


def _deep(inner: bytes, kind: str, depth: int) -> bytes:
    """`inner` wrapped in `depth` levels of multipart / message/rfc822"""
    body = inner
    for d in range(depth):
        if kind == 'deeprfc':
            body = b'Content-Type: message/rfc822\r\n\r\n' + body
        else:
            b = b'B%d' % d
            body = (b'Content-Type: multipart/mixed; boundary="' + b + b'"\r\n\r\n--' + b + b'\r\n'
                    + body + b'\r\n--' + b + b'--\r\n')
    return body


# value classes written for particular headers: there EVERY representative is used
HDRFITS = {'msgid': ('Message-ID', 'In-Reply-To', 'References'),
           'addr': ('From', 'Sender', 'Reply-To', 'To', 'Cc', 'Bcc'),
           'date': ('Date',), 'ct_': ('Content-Type',), 'cte_': ('Content-Transfer-Encoding',),
           'disp': ('Content-Disposition',), 'lang': ('Content-Language',), 're_deep': ('Subject',),
           'encword': ('Subject', 'From', 'To')}


def hdr_variants(triple) -> int:
    name, val, frame = triple
    if frame in ('top',) and any(val.startswith(k) and name in v for k, v in HDRFITS.items()):
        return len(HDRVAL[val])
    return 1


def concretise_hdr(triple, rng, variant: int | None = None) -> bytes:
    """<<header name, value class, frame>> -> message bytes"""
    name, val, frame = triple
    if frame in ('deepmulti', 'deeprfc'):
        hdr = name.encode() + b': ' + rng.choice(HDRVAL[val]) + b'\r\n'
        return _deep(hdr + b'\r\nhello world\r\n', frame, rng.choice([60, 130, 260, 700]))
    value = rng.choice(HDRVAL[val]) if variant is None else HDRVAL[val][variant % len(HDRVAL[val])]
    hdr = name.encode() + b': ' + value + b'\r\n'
    inner = hdr + b'X-Test: value\r\n\r\nhello world\r\n'
    if name.startswith('Content-') or name == 'MIME-Version':
        # the body must make sense for the structured cases too
        inner = hdr + b'\r\n--BB\r\n\r\naGVsbG8=\r\n--BB--\r\n'
    if frame == 'top':
        return inner
    if frame == 'obscolon':
        # obsolete but legal: white space between the field name and the colon
        return name.encode() + rng.choice([b' ', b'\t', b'  ']) + inner[len(name):]
    if frame == 'part':
        return (b'Subject: outer\r\nContent-Type: multipart/mixed; boundary="OUT"\r\n\r\n'
                b'--OUT\r\n' + inner + b'\r\n--OUT\r\nContent-Type: text/plain\r\n\r\nsecond\r\n--OUT--\r\n')
    return b'Subject: outer\r\nContent-Type: message/rfc822\r\n\r\n' + inner


def concretise_msg(tokens, rng) -> bytes:
    return b''.join(rng.choice(LINE[t]) for t in tokens)


import re as _re

_LITPLUS = _re.compile(rb'\{(\d+)\+\}\r?$')
_LITSYNC = _re.compile(rb'\{(\d+)\}\r?\n$')


def announced(chunk: bytes) -> int:
    """octets of the synchronising literal this chunk ends by announcing (0: none)"""
    m = _LITSYNC.search(chunk[-40:])
    return int(m.group(1)) if m and len(m.group(1)) < 12 else 0


def logical_lines(chunk: bytes, skip: int = 0) -> int:
    """number of complete lines the SERVER's reader assembles from this chunk:
    a line ending in {n+} continues with n literal bytes and the following line
    (RFC 7888).  -1 if the chunk ends inside an announced literal.  skip: the
    chunk starts with that many octets of a synchronising literal."""
    n = 0
    pos = min(skip, len(chunk))
    while pos < len(chunk):
        nl = chunk.find(b'\n', pos)
        if nl < 0:
            return n
        seg = chunk[pos:nl]
        m = _LITPLUS.search(seg)
        pos = nl + 1
        if m:
            if len(m.group(1)) > 12:
                # a length no server can honour (nor Python convert): the line is refused as
                # it stands, nothing is read as literal data
                n += 1
                continue
            pos += int(m.group(1))
            if pos > len(chunk):
                return -1
            continue
        n += 1
    return n


class _SieveResp:
    def __init__(self, kind, cond, end, code=None):
        self.kind = kind          # 'tagged' (OK/NO/BYE completion) | 'untagged' (data line)
        self.cond = cond
        self.end = end
        self.code = code


def sieve_parse_one(data: bytes, pos: int):
    """strict RFC 5804 server response line: OK/NO/BYE [SP (code)] [SP string] CRLF, or a
    data line: string *(SP (string / atom)) CRLF"""
    s = rp._S(data, pos)
    c = s.peek()
    if c in (0x22, 0x7b):
        s.string()
        while s.peek() == 0x20:
            s.sp()
            if s.peek() in (0x22, 0x7b):
                s.string()
            else:
                s.atom()
        s.crlf()
        return _SieveResp('untagged', None, s.i)
    word = s.atom().upper()
    if word not in (b'OK', b'NO', b'BYE'):
        raise rp.Malformed(pos, f'unknown ManageSieve response {word!r}')
    code = None
    if s.peek() == 0x20:
        s.sp()
        if s.peek() == 0x28:
            s.lit(b'(')
            j = s.i
            depth = 1
            while depth:
                ch = s.peek()
                if ch in (0x0d, 0x0a):
                    raise rp.Malformed(s.i, 'line break inside response code')
                if ch in (0x22, 0x7b):
                    s.string()
                    continue
                if ch == 0x28:
                    depth += 1
                elif ch == 0x29:
                    depth -= 1
                s.i += 1
            code = bytes(data[j:s.i - 1])
            if s.peek() == 0x20:
                s.sp()
                s.string()
        else:
            s.string()
    s.crlf()
    return _SieveResp('tagged', word, s.i, code)


class Transcript:
    """events of one connection for Trace_Total"""

    def __init__(self, service: str = 'imap'):
        self.events = []
        self.off = 0
        self.malformed = None
        self.service = service

    def absorb(self, conn) -> list:
        data = bytes(conn.writer.out)
        got = []
        while self.off < len(data):
            try:
                if self.service == 'sieve':
                    r = sieve_parse_one(data, self.off)
                    self.off = r.end
                    got.append(r)
                    if r.kind == 'tagged':
                        if r.cond == b'BYE':
                            self.events.append({'e': 'bye', 'serverbug': False})
                            self.events.append({'e': 'tagged', 'cond': 'BYE'})
                        else:
                            self.events.append({'e': 'tagged', 'cond': r.cond.decode()})
                    continue
                r = rp.parse_one(data, self.off)
            except rp.Incomplete:
                break
            except rp.Malformed as exc:
                if self.service == 'sieve':
                    # C07 is about IMAP responses; for the response obligation count the
                    # completions line-wise and go on
                    rest = data[self.off:]
                    for ln in rest.split(b'\r\n'):
                        w0 = ln.split(b' ')[0].upper()
                        if w0 in (b'OK', b'NO', b'BYE'):
                            if w0 == b'BYE':
                                self.events.append({'e': 'bye', 'serverbug': False})
                            self.events.append({'e': 'tagged', 'cond': w0.decode()})
                    self.off = len(data)
                    break
                self.malformed = (exc.pos, exc.why, data[max(0, exc.pos - 60):exc.pos + 60])
                self.events.append({'e': 'malformed', 'why': exc.why[:200]})
                self.off = len(data)
                break
            self.off = r.end
            got.append(r)
            if r.kind == 'tagged':
                self.events.append({'e': 'tagged', 'cond': r.cond.decode()})
            elif r.kind == 'cont':
                self.events.append({'e': 'cont'})
            elif r.cond == b'BYE':
                self.events.append({'e': 'bye', 'serverbug': bool(r.code and r.code[0] == b'SERVERBUG')})
            elif r.cond == b'BAD':
                # a line without a usable tag can only be answered untagged
                self.events.append({'e': 'tagged', 'cond': 'BAD', 'untagged': True})
        return got


STATES = ('nonauth', 'auth', 'selected')


def prepare(w: World, name: str, state: str, service: str = 'imap'):
    c = w.connect(name, service=service)
    c.take()
    if service == 'sieve':
        if state != 'nonauth':
            import base64
            cred = base64.b64encode(b'\x00user1\x00pass1')
            w.send(name, b'AUTHENTICATE "PLAIN" "' + cred + b'"\r\n')
            c.take()
        return c
    if state in ('auth', 'selected'):
        w.login(name)
    if state == 'selected':
        w.cmd(name, b'SELECT INBOX')
    c.take()
    return c


def run_line(w: World, state: str, chunks: list, *, service: str = 'imap', name: str = 'a',
             repeat: int = 1, tagfmt=b'T%d'):
    """One connection: bring it to `state`, send the chunks (repeat times), record."""
    tr = Transcript(service)
    c = prepare(w, name, state, service)
    tr.off = len(c.writer.out)
    hang = False
    eof = False
    try:
        with Watchdog(4.0):
            for rep in range(repeat):
                if c.done:
                    break
                pending = list(chunks)
                first = True
                skip = 0
                word = chunks[0].split(b' ')[0].split(b'\r')[0].upper()
                while pending:
                    chunk = pending.pop(0)
                    if first and service == 'imap':
                        chunk = (tagfmt % rep) + b' ' + chunk
                    first = False
                    k = logical_lines(chunk, skip)
                    skip = announced(chunk)
                    if k < 0:
                        k = 0           # the client stopped inside a literal it announced
                    for _ in range(k):
                        tr.events.append({'e': 'in'})
                    w.send(name, chunk)
                    got = tr.absorb(c)
                    if c.done:
                        break
                    conts = [r for r in got if r.kind == 'cont']
                    if pending:
                        if not conts or any(r.kind == 'tagged' for r in got):
                            break       # refused: a client would not send the literal
                    elif conts and got[-1].kind == 'cont' and word in (
                            b'IDLE', b'AUTHENTICATE'):
                        # IDLE / SASL exchange: end it
                        for reply in ((b'DONE\r\n',) if word == b'IDLE' else
                                      ((b'*\r\n',), (b'//7/AP8A/w==\r\n',), (b'!!!\r\n',),
                                       (b'AHVzZXIx\r\n', b'//4=\r\n'))[len(chunks[0]) % 4]):
                            tr.events.append({'e': 'in'})
                            w.send(name, reply)
                            tr.absorb(c)
            w.loop.settle(200000, max_vtime=w.loop.time() + 30)
            tr.absorb(c)
    except Hang:
        hang = True
    except Exception as exc:       # StepBudgetExceeded etc.
        hang = True
        tr.note = repr(exc)
    peer = True
    if not hang:
        try:
            with Watchdog(3.0):
                p = w.connect(name + 'p', service=service)
                p.take()
                if service == 'imap':
                    out = w.cmd(name + 'p', b'NOOP')
                    peer = b' OK ' in out
                else:
                    w.send(name + 'p', b'NOOP\r\n')
                    peer = p.take().startswith(b'OK')
                p.eof()
                w.run(name + 'p')
        except Exception:
            peer = False
    exc = False
    oc = c.outcome()
    if isinstance(oc, tuple):
        exc = True
        tr.exc = oc[1]
    tr.events.append({'e': 'end', 'closed': bool(c.done or c.writer.closed), 'exc': exc,
                      'hang': hang, 'eof': eof, 'peer': bool(peer)})
    if not c.done and not hang:
        c.eof()
        try:
            w.run(name)
        except Exception:
            pass
    return tr, hang


DUO_MSGS = [b'Subject: one\r\nMessage-ID: <1@x>\r\n\r\nfirst\r\n',
            b'Subject: two\r\nMIME-Version: 1.0\r\nContent-Type: multipart/mixed; boundary=B\r\n\r\n'
            b'--B\r\nContent-Type: text/plain\r\n\r\nhello\r\n--B\r\nContent-Type: message/rfc822\r\n\r\n'
            b'Subject: inner\r\n\r\nin\r\n--B--\r\n',
            b'Subject: three\r\nIn-Reply-To: <1@x>\r\n\r\nthird\r\n']


def run_duo(w: World, idx: int, script: list):
    """Two connections of the same user, A and B, both with a mailbox of their own selected
    (three messages; the second is a multipart with an encapsulated message).  script is a list
    of (who, bytes): a command line without tag (the tag is added) or b'DONE'.  Everybody runs
    after every line.  -> [(Transcript A, hang), (Transcript B, hang)]"""
    box = b'D%d' % idx
    na, nb = f'c{idx}A', f'c{idx}B'
    ca = prepare(w, na, 'auth')
    cb = prepare(w, nb, 'auth')
    w.cmd(na, b'CREATE ' + box)
    for m in DUO_MSGS:
        w.cmd(na, b'APPEND ' + box + b' {%d+}\r\n' % len(m) + m)
    w.cmd(na, b'SELECT ' + box)
    w.cmd(nb, b'SELECT ' + box)
    conns = {'A': (na, ca, Transcript()), 'B': (nb, cb, Transcript())}
    for _n, c, tr in conns.values():
        c.take()
        tr.off = len(c.writer.out)
    hang = False
    try:
        with Watchdog(6.0):
            for i, (who, data) in enumerate(script):
                name, c, tr = conns[who]
                if c.done:
                    continue
                data = data.replace(b'%BOX%', box)
                line = data + b'\r\n' if data == b'DONE' else b'%s%d ' % (who.encode(), i) + data + b'\r\n'
                for _ in range(max(1, logical_lines(line))):
                    tr.events.append({'e': 'in'})
                w.send(name, line, run=False)
                w.loop.settle(200000, max_vtime=w.loop.time() + 3)
                for _n2, c2, tr2 in conns.values():
                    tr2.absorb(c2)
    except Hang:
        hang = True
    except Exception as exc:       # StepBudgetExceeded etc.
        hang = True
        conns['A'][2].note = repr(exc)
    peer = True
    if not hang:
        try:
            with Watchdog(3.0):
                p = w.connect(na + 'p')
                p.take()
                peer = b' OK ' in w.cmd(na + 'p', b'NOOP')
                p.eof()
                w.run(na + 'p')
        except Exception:
            peer = False
    out = []
    for who in ('A', 'B'):
        name, c, tr = conns[who]
        oc = c.outcome()
        exc = isinstance(oc, tuple)
        if exc:
            tr.exc = oc[1]
        tr.events.append({'e': 'end', 'closed': bool(c.done or c.writer.closed), 'exc': exc,
                          'hang': hang, 'eof': False, 'peer': bool(peer)})
        if not c.done and not hang:
            c.eof()
            try:
                w.run(name)
            except Exception:
                pass
        out.append((tr, hang))
    return out
