"""Deterministic, driver-owned asyncio loop with virtual time.

The driver is ordinary synchronous code.  Nothing runs unless the driver calls
``run_owner`` / ``settle``; every ready handle is attributed to an *owner* (a
session name) through a context variable that the owner's root task carries and
all of its child tasks inherit, so "advance session s" means "run s's handles
until s has none ready" regardless of asyncio's FIFO order.
"""

from __future__ import annotations

import asyncio
import contextvars
import heapq
from asyncio import events, tasks
from collections import deque

OWNER: contextvars.ContextVar[str | None] = contextvars.ContextVar(
    'verif_owner', default=None)


class StepBudgetExceeded(Exception):
    pass


class VLoop(asyncio.SelectorEventLoop):

    def __init__(self) -> None:
        super().__init__()
        self._vtime = 0.0
        self.handles_run = 0
        self.set_task_factory(self._factory)
        self.unhandled: list[dict] = []
        self.set_exception_handler(self._on_exc)

    @staticmethod
    def _factory(loop, coro, **kw):
        return tasks._PyTask(coro, loop=loop, **kw)

    def _on_exc(self, loop, ctx) -> None:
        self.unhandled.append(ctx)

    def time(self) -> float:
        return self._vtime

    # -- ownership ---------------------------------------------------------

    @staticmethod
    def owner_of(handle) -> str | None:
        ctx = getattr(handle, '_context', None)
        if ctx is None:
            return None
        try:
            return ctx.get(OWNER)
        except Exception:
            return None

    def spawn(self, coro, owner: str | None):
        ctx = contextvars.copy_context()
        ctx.run(OWNER.set, owner)
        return self.create_task(coro, context=ctx)

    # -- stepping ----------------------------------------------------------

    def _move_due(self) -> None:
        while self._scheduled:
            h = self._scheduled[0]
            if h._cancelled:
                heapq.heappop(self._scheduled)
                h._scheduled = False
                self._timer_cancelled_count = max(
                    0, self._timer_cancelled_count - 1)
                continue
            if h._when > self._vtime:
                break
            heapq.heappop(self._scheduled)
            h._scheduled = False
            self._ready.append(h)

    def ready_owners(self) -> list[str | None]:
        self._move_due()
        seen: list[str | None] = []
        for h in self._ready:
            if h._cancelled:
                continue
            o = self.owner_of(h)
            if o not in seen:
                seen.append(o)
        return seen

    def _run_handle(self, h) -> None:
        self.handles_run += 1
        prev = events._get_running_loop()
        events._set_running_loop(self)
        try:
            h._run()
        finally:
            events._set_running_loop(prev)

    def run_owner(self, owner, budget: int = 100000, max_handles: int | None = None) -> int:
        """Run ready handles attributed to ``owner`` (a name, or a set of names;
        handles with no owner always qualify) until none is ready (or at most
        ``max_handles`` of them: a micro-step)."""
        if isinstance(owner, (set, frozenset, list, tuple)):
            owners = set(owner) | {None}
        else:
            owners = {owner, None}
        n = 0
        while True:
            self._move_due()
            picked = None
            keep: deque = deque()
            while self._ready:
                h = self._ready.popleft()
                if h._cancelled:
                    continue
                if picked is None and self.owner_of(h) in owners:
                    picked = h
                    break
                keep.append(h)
            # restore order: kept ones first, then the rest
            keep.extend(self._ready)
            self._ready.clear()
            self._ready.extend(keep)
            if picked is None:
                return n
            self._run_handle(picked)
            n += 1
            if max_handles is not None and n >= max_handles:
                return n
            if n > budget:
                raise StepBudgetExceeded(owner)

    def run_all(self, budget: int = 1000000) -> int:
        """FIFO, like asyncio, until nothing is ready (no time jump)."""
        n = 0
        while True:
            self._move_due()
            if not self._ready:
                return n
            h = self._ready.popleft()
            if h._cancelled:
                continue
            self._run_handle(h)
            n += 1
            if n > budget:
                raise StepBudgetExceeded('all')

    def next_timer(self) -> float | None:
        while self._scheduled and self._scheduled[0]._cancelled:
            h = heapq.heappop(self._scheduled)
            h._scheduled = False
        if self._scheduled:
            return self._scheduled[0]._when
        return None

    def advance_to_next_timer(self, limit: float | None = None) -> bool:
        when = self.next_timer()
        if when is None:
            return False
        if limit is not None and when > limit:
            return False
        if when > self._vtime:
            self._vtime = when
        self._move_due()
        return True

    def settle(self, budget: int = 1000000, max_vtime: float | None = None,
               until=None) -> int:
        """FIFO with virtual-time jumps until nothing is runnable (or until()
        returns True).  max_vtime bounds the virtual clock."""
        n = 0
        while True:
            n += self.run_all(budget)
            if until is not None and until():
                return n
            if not self.advance_to_next_timer(max_vtime):
                return n
            if n > budget:
                raise StepBudgetExceeded('settle')

    def run_coro(self, coro, owner: str | None = None, budget: int = 1000000,
                 max_vtime: float | None = None):
        """Run one coroutine to completion (FIFO + virtual time)."""
        task = self.spawn(coro, owner)
        self.settle(budget, max_vtime, until=task.done)
        if not task.done():
            task.cancel()
            self.settle(budget)
            raise RuntimeError('coroutine did not finish: blocked forever')
        return task.result()

    def shutdown(self) -> None:
        try:
            for t in list(tasks.all_tasks(self)):
                t.cancel()
            self.settle(100000, max_vtime=self._vtime)
        except Exception:
            pass
        self.unhandled.clear()
        try:
            self.close()
        except Exception:
            pass
