"""Scenario runner + recorder for the selected-mailbox synchronisation
properties (C01 C02 C16 C17 C12 C14 C04).

A scenario is: an initial mailbox, a few sessions, and a *schedule* of driver
actions  ('issue', s, cmd) | ('step', s) | ('finish', s) | ('quiesce',) |
('probe',) | ('cancel', s) | ('drop', s)  executed on the real server under the
driver-owned loop with the checkpoint subsystem.  Everything the sessions' clients
receive is parsed by the strict response parser and written as events for the
observer trace specs (Trace_Sync, Trace_Recent, ...).

Abstract commands (tuples):
  ('select', mbx) ('examine', mbx) ('close',) ('noop',) ('check',)
  ('store', uidmode, set, op, silent, flags)      op in '+', '-', '='
  ('fetch', uidmode, set, seen)
  ('search', uidmode, key)
  ('expunge',) ('uidexpunge', set)
  ('copy', uidmode, set, dest) ('move', uidmode, set, dest)
  ('append', dest, k, flags)                      k messages in one APPEND
  ('idle',) ('done',)
  ('logout',)
"""

from __future__ import annotations

from . import respparse as rp
from .server import World

MSG = (b'From: verif@example.com\r\nTo: you@example.com\r\nSubject: m%d\r\n'
       b'Date: Mon, 1 Jan 2024 00:00:00 +0000\r\n\r\nbody %d\r\n')


def fl(flags) -> bytes:
    return b'(' + b' '.join(f.encode() for f in flags) + b')'


def concretise(cmd: tuple, counter: list) -> tuple[bytes, str]:
    """-> (command line without tag, kind for the observer)"""
    k = cmd[0]
    if k == 'select':
        return b'SELECT ' + cmd[1].encode(), 'select'
    if k == 'examine':
        return b'EXAMINE ' + cmd[1].encode(), 'select'
    if k == 'close':
        return b'CLOSE', 'other'
    if k == 'noop':
        return b'NOOP', 'other'
    if k == 'check':
        return b'CHECK', 'other'
    if k == 'logout':
        return b'LOGOUT', 'other'
    if k == 'store':
        _, uidmode, sset, op, silent, flags = cmd
        item = {'+': b'+FLAGS', '-': b'-FLAGS', '=': b'FLAGS'}[op]
        if silent:
            item += b'.SILENT'
        line = (b'UID ' if uidmode else b'') + b'STORE ' + sset.encode() + b' ' + item + b' ' + fl(flags)
        return line, 'uid' if uidmode else 'seq'
    if k == 'fetch':
        _, uidmode, sset, seen = cmd[:4]
        att = cmd[4].encode() if len(cmd) > 4 else b'(UID FLAGS BODY[HEADER.FIELDS (SUBJECT)])' if seen else (
            b'(UID FLAGS BODY.PEEK[HEADER.FIELDS (SUBJECT)])' if FETCH_SUBJECT[0] else b'(UID FLAGS)')
        return (b'UID ' if uidmode else b'') + b'FETCH ' + sset.encode() + b' ' + att, \
            'uid' if uidmode else 'seq'
    if k == 'search':
        _, uidmode, key = cmd
        return (b'UID ' if uidmode else b'') + b'SEARCH ' + key.encode(), \
            'uid' if uidmode else 'seq'
    if k == 'expunge':
        return b'EXPUNGE', 'other'
    if k == 'uidexpunge':
        return b'UID EXPUNGE ' + cmd[1].encode(), 'uid'
    if k in ('copy', 'move'):
        _, uidmode, sset, dest = cmd
        return (b'UID ' if uidmode else b'') + k.upper().encode() + b' ' + sset.encode() \
            + b' ' + dest.encode(), 'uid' if uidmode else 'other'
    if k == 'append':
        _, dest, n, flags = cmd
        line = b'APPEND ' + dest.encode()
        for _i in range(n):
            counter[0] += 1
            m = MSG % (counter[0], counter[0])
            line += b' ' + fl(flags) + b' {%d+}\r\n' % len(m) + m
        return line, 'other'
    if k == 'appendcancel':
        # k complete messages, then the zero-length literal that aborts the command (RFC 3502)
        _, dest, n = cmd
        line = b'APPEND ' + dest.encode()
        for _i in range(n):
            counter[0] += 1
            m = MSG % (counter[0], counter[0])
            line += b' {%d+}\r\n' % len(m) + m
        return line + b' {0+}\r\n', 'other'
    if k == 'idle':
        return b'IDLE', 'idle'
    if k == 'status':
        return b'STATUS ' + cmd[1].encode() + b' (MESSAGES UIDNEXT UIDVALIDITY)', 'other'
    if k == 'create':
        return b'CREATE ' + cmd[1].encode(), 'other'
    if k == 'delete':
        return b'DELETE ' + cmd[1].encode(), 'other'
    if k == 'rename':
        return b'RENAME ' + cmd[1].encode() + b' ' + cmd[2].encode(), 'other'
    raise ValueError(cmd)


FETCH_SUBJECT = [False]     # C04: every FETCH also asks for the Subject (content identity)


class SyncRun:

    def __init__(self, *, backend: str = 'dict', init_flags=((), (), ()),
                 sessions=('a', 'b'), controlled: bool = True,
                 boxes=('Box',), world_kw: dict | None = None,
                 claim_recent=False, box_msgs: dict | None = None):
        # everything a replay needs: how the run was set up and every driver action on it
        self.recipe = {'init': _jd({'backend': backend, 'init_flags': list(init_flags),
                                   'sessions': list(sessions), 'controlled': controlled,
                                   'boxes': list(boxes), 'world_kw': world_kw,
                                   'claim_recent': claim_recent if isinstance(claim_recent, bool)
                                   else sorted(claim_recent), 'box_msgs': box_msgs}),
                       'fetch_subject': FETCH_SUBJECT[0], 'actions': []}
        self._rec_depth = 0
        self.w = World(backend, **(world_kw or {}))
        self.backend = backend
        self.sessions = list(sessions)
        self.events: list[dict] = []
        self.parse_off: dict[str, int] = {}
        self.inflight: dict[str, dict | None] = {}
        self.idling: dict[str, bool] = {}
        self.msgno = [0]
        self.errors: list[str] = []       # C07-style malformed output etc.
        self.tags: dict[str, int] = {}
        self.acks: list[dict] = []        # tagged results with codes (C04/C14)
        self._objs: dict = {}
        self._cmd_arrivals: dict = {}
        self._validities: dict = {}
        self._cids: dict = {}
        self._bound: dict = {}
        self.log_state = False
        w = self.w
        z = w.connect('z')
        z.take()
        w.login('z')
        for b in boxes:
            w.cmd('z', b'CREATE ' + b.encode())
        for flags in init_flags:
            line, _ = concretise(('append', 'INBOX', 1, flags), self.msgno)
            w.cmd('z', line)
        for b in (box_msgs or {}):
            for _i in range(box_msgs[b]):
                line, _ = concretise(('append', b, 1, ()), self.msgno)
                w.cmd('z', line)
        # which mailboxes' initial messages the setup session claims (\Recent consumed)
        if claim_recent is True:
            self._claimed_boxes = {'INBOX'}
        elif not claim_recent:
            self._claimed_boxes = set()
        else:
            self._claimed_boxes = set(claim_recent)
        for b in sorted(self._claimed_boxes):
            w.cmd('z', b'SELECT ' + b.encode())
            w.cmd('z', b'CLOSE')
        w.cmd('z', b'LOGOUT')
        for s in self.sessions:
            c = w.connect(s)
            c.take()
            w.login(s)
            c.take()
            self.parse_off[s] = len(c.writer.out)
            self.inflight[s] = None
            self.idling[s] = False
            self.tags[s] = 0
        if controlled:
            w.ck.controlled.update(self.sessions)
        self._known_uids = {}
        # the setup's messages: already claimed by the setup session's own SELECT or not
        self._setup_claimed = True
        self.collect('z')
        self._setup_claimed = False

    # -- glass box ---------------------------------------------------------------

    def server_view(self, s: str):
        st = self.w.conns[s].state
        sel = st._selected if st is not None else None
        if sel is None:
            return None
        return list(sel.messages._sorted)

    def selected_name(self, s: str):
        st = self.w.conns[s].state
        sel = st._selected if st is not None else None
        return None if sel is None else sel.lookup

    def _data(self, mbx: str):
        if self.backend != 'dict':
            return None
        mset = self.w.mailbox_set()
        if mset is None:
            return None
        return mset._inbox if mbx.upper() == 'INBOX' else mset._set.get(mbx)

    def obj_of(self, mbx: str) -> str:
        """stable identity of the mailbox object behind a name ('' if none)"""
        if self.backend != 'dict':
            return mbx             # maildir: a mailbox is its name (no rename in these runs)
        data = self._data(mbx)
        if data is None:
            return ''
        key = id(data)
        if key not in self._objs:
            self._objs[key] = (f'o{len(self._objs) + 1}', data)   # keeps the object alive
        return self._objs[key][0]

    def validity_idx(self, v: int) -> int:
        if v not in self._validities:
            self._validities[v] = len(self._validities) + 1
        return self._validities[v]

    def cid_of(self, msg) -> int:
        c = msg._content
        key = id(c)
        hit = self._cids.get(key)
        if hit is None or hit[1] is not c:
            import re as _re
            m = _re.search(rb'Subject: m(\d+)', bytes(c.header))
            hit = (int(m.group(1)) if m else 0, c)
            self._cids[key] = hit
        return hit[0]

    def state_event(self) -> None:
        """every mailbox: [obj, uid, cid, deleted?] for each message (glass box)"""
        mset = self.w.mailbox_set()
        rows = []
        names = {'INBOX': mset._inbox}
        names.update(mset._set)
        for name, data in sorted(names.items()):
            o = self.obj_of(name)
            for u, m in sorted(data._messages.items()):
                rows.append([o, u, self.cid_of(m),
                             any(bytes(f) == b'\\Deleted' for f in m.permanent_flags)])
        self.events.append({'e': 'state', 'rows': rows})

    def dump(self, mbx: str, norw: bool = False) -> None:
        """glass-box dump of a mailbox: uids, permanent flags, stored recent bits
        (norw: no session has the mailbox selected read-write)"""
        if self.backend != 'dict':
            from . import maildirsrv
            uids, flags, rbits = maildirsrv.dump(self.w, mbx)
            self.events.append({'e': 'dump', 'mbx': mbx, 'uids': uids, 'norw': norw,
                                'flags': flags, 'rbits': rbits})
            return
        mset = self.w.mailbox_set()
        data = mset._inbox if mbx.upper() == 'INBOX' else mset._set.get(mbx)
        uids = sorted(data._messages) if data is not None else []
        self.events.append({
            'e': 'dump', 'mbx': mbx, 'uids': uids, 'norw': norw,
            'flags': [sorted(bytes(f).decode() for f in data._messages[u].permanent_flags)
                      for u in uids],
            'rbits': [bool(data._messages[u].recent) for u in uids]})

    def selected_ro(self, s: str) -> bool:
        st = self.w.conns[s].state
        sel = st._selected if st is not None else None
        return bool(sel is not None and sel.readonly)

    def truth(self, mbx: str):
        """sorted uids and their permanent flags in the store"""
        if self.backend == 'dict':
            mset = self.w.mailbox_set()
            data = mset._inbox if mbx.upper() == 'INBOX' else mset._set.get(mbx)
            if data is None:
                return [], []
            uids = sorted(data._messages)
            flags = [sorted(bytes(f).decode() for f in data._messages[u].permanent_flags)
                     for u in uids]
            return uids, flags
        from . import maildirsrv
        return maildirsrv.truth(self.w, mbx)

    # -- recording ---------------------------------------------------------------

    def note(self, **kw) -> None:
        self.events.append(kw)

    def store_uids(self) -> dict:
        if self.backend == 'dict':
            mset = self.w.mailbox_set()
            if mset is None:
                return {}
            out = {'INBOX': set(mset._inbox._messages)}
            for name, data in mset._set.items():
                out[name] = set(data._messages)
            return out
        from . import maildirsrv
        return maildirsrv.store_uids(self.w)

    def collect(self, by: str = '') -> None:
        if self.backend == 'dict':
            mset = self.w.mailbox_set()
            names = {}
            if mset is not None:
                names['INBOX'] = mset._inbox
                names.update(mset._set)
            current = {}
            for name, data in names.items():
                current[self.obj_of(name)] = name
            # every mailbox object ever seen, including ones no name points to any more
            for o, data in list(self._objs.values()):
                uids = set(data._messages)
                new = uids - self._known_uids.get(o, set())
                if new:
                    ev = {'e': 'arrive', 'dest': current.get(o, ''), 'obj': o,
                          'uids': sorted(new), 'by': by,
                          'claimed': self._setup_claimed and current.get(o, '') in self._claimed_boxes,
                          'cids': [self.cid_of(data._messages[u]) for u in sorted(new)]}
                    self._cmd_arrivals.setdefault(by, []).append((o, data))
                    self.events.append(ev)
                self._known_uids.setdefault(o, set()).update(uids)
        else:
            now = self.store_uids()
            for m, uids in now.items():
                new = uids - self._known_uids.get(m, set())
                if new:
                    self.events.append({'e': 'arrive', 'dest': m, 'obj': m,
                                        'uids': sorted(new), 'by': by,
                                        'claimed': self._setup_claimed})
                self._known_uids.setdefault(m, set()).update(uids)
        if self.log_state:
            self.state_event()
        for s in self.sessions:
            c = self.w.conns[s]
            data = bytes(c.writer.out)
            pos = self.parse_off[s]
            while pos < len(data):
                try:
                    r = rp.parse_one(data, pos)
                except rp.Incomplete:
                    break
                except rp.Malformed as exc:
                    self.errors.append(f'{s}: malformed output {exc}: {data[pos:pos+80]!r}')
                    pos = len(data)
                    break
                pos = r.end
                self._on_resp(s, r)
            self.parse_off[s] = pos

    def _on_resp(self, s: str, r) -> None:
        ev = self.events
        if r.kind == 'cont':
            if self.inflight[s] and self.inflight[s]['cmd'][0] == 'idle':
                self.idling[s] = True
                ev.append({'e': 'idling', 's': s})
                name = self.selected_name(s)
                if name is not None:
                    uids, flags = self.truth(name)
                    ev.append({'e': 'idlebase', 's': s, 'uids': uids, 'flags': flags})
            return
        if r.kind == 'untagged':
            if r.name == b'EXPUNGE':
                ev.append({'e': 'expunge', 's': s, 'n': r.num})
            elif r.name == b'EXISTS':
                ev.append({'e': 'exists', 's': s, 'n': r.num})
            elif r.name == b'RECENT':
                ev.append({'e': 'recent', 's': s, 'n': r.num})
            elif r.name == b'FETCH':
                d = r.data
                flags = d.get(b'FLAGS')
                fe = {'e': 'fetch', 's': s, 'n': r.num, 'uid': d.get(b'UID', 0),
                      'hasflags': flags is not None,
                      'flags': sorted(f.decode() for f in (flags or [])), 'cid': 0, 'bound': '',
                      'nowobj': ''}
                subj = [v for k_, v in d.items() if k_.startswith(b'BODY[HEADER.FIELDS')]
                if subj and self.backend == 'dict':
                    import re as _re
                    m = _re.search(rb'Subject: m(\d+)', bytes(getattr(subj[0], 'value', subj[0]) or b''))
                    if m:
                        fe['cid'] = int(m.group(1))
                        fe['bound'] = self._bound.get(s, '')
                        nm = self.selected_name(s)
                        fe['nowobj'] = self.obj_of(nm) if nm else ''
                # the message is no longer in the store (expunged by somebody, this session not
                # told yet): what the server answers about it is an answer about a ghost
                fe['gone'] = False
                if self.backend == 'dict':
                    nm = self.selected_name(s)
                    data = self._data(nm) if nm else None
                    sv = self.server_view(s) or []
                    u = fe['uid'] or (sv[r.num - 1] if 0 < r.num <= len(sv) else 0)
                    fe['gone'] = bool(data is not None and u and u not in data._messages)
                else:
                    # maildir: ground truth is the directory; only the session's own STORE
                    # asks (Trace_Recent), so the directory is read only then
                    inf = self.inflight.get(s)
                    nm = self.selected_name(s)
                    if inf and inf['cmd'][0] == 'store' and nm:
                        sv = self.server_view(s) or []
                        u = fe['uid'] or (sv[r.num - 1] if 0 < r.num <= len(sv) else 0)
                        try:
                            fe['gone'] = bool(u and u not in self.truth(nm)[0])
                        except Exception:      # noqa: BLE001
                            pass
                ev.append(fe)
            elif r.name == b'SEARCH':
                inf = self.inflight[s]
                ev.append({'e': 'search', 's': s, 'ids': list(r.data),
                           'uid': bool(inf and inf['cmd'][0] == 'search' and inf['cmd'][1])})
            elif r.cond == b'BYE':
                ev.append({'e': 'bye', 's': s, 'text': r.text.decode('latin1')})
            elif r.cond == b'OK' and r.code and r.code[0] == b'COPYUID':
                self._copyuid(s, r.code[1].decode())
            elif r.cond == b'OK' and r.code and r.code[0] == b'UIDNEXT':
                inf = self.inflight[s]
                if inf and inf.get('target') and self.obj_of(inf['cmd'][1]) == inf['target'][0]:
                    ev.append({'e': 'uidnext', 's': s, 'obj': inf['target'][0],
                               'n': int(r.code[1]), 'maxstart': inf['target'][1]})
            elif r.name == b'STATUS':
                inf = self.inflight[s]
                st = r.data[1]
                if inf and inf.get('target') and b'UIDNEXT' in st \
                        and self.obj_of(inf['cmd'][1]) == inf['target'][0]:
                    ev.append({'e': 'uidnext', 's': s, 'obj': inf['target'][0],
                               'n': st[b'UIDNEXT'], 'maxstart': inf['target'][1]})
            return
        # tagged
        inf = self.inflight[s]
        self.inflight[s] = None
        self.idling[s] = False
        view = self.server_view(s)
        cmd = inf['cmd'] if inf else ('?',)
        cond = r.cond.decode()
        code = r.code[0].decode() if r.code else ''
        if cmd[0] == 'store' and cmd[4] and cond != 'OK' and inf.get('addressed') is not None:
            # the optimistic assumption made at command start was wrong
            ev.append({'e': 'unsilent', 's': s, 'uids': inf['addressed']})
        if cmd[0] == 'idle' and inf.get('ended_by'):
            ev.append({'e': 'idleend', 's': s, 'input': inf['ended_by'], 'cond': cond})
        if code == 'COPYUID':
            self._copyuid(s, r.code[1].decode(), inf)
        if code == 'APPENDUID' and inf:
            v, _, us = r.code[1].decode().partition(' ')
            dest = inf['cmd'][1]
            o, realv = self._delivered_to(s, dest)
            ev.append({'e': 'appenduid', 's': s, 'obj': o,
                       'v': self.validity_idx(int(v)), 'realv': realv,
                       'uids': _expand(us), 'cids': inf.get('cids', [])})
        if cmd[0] in ('select', 'examine'):
            self._bound[s] = inf['target'][0] if (cond == 'OK' and inf and inf.get('target')) else ''
        elif cmd[0] == 'close' or view is None:
            self._bound[s] = ''
        ev.append({'e': 'tagged', 's': s, 'cond': cond, 'code': code,
                   'codeargs': r.code[1].decode() if r.code else '',
                   'selected': view is not None, 'view': view or [],
                   'ro': self.selected_ro(s), 'wasro': bool(inf and inf.get('wasro')),
                   'cmd': list(map(_j, cmd)), 'mbx': self.selected_name(s) or ''})

    def _delivered_to(self, s: str, name: str):
        """(object id, validity index) of the mailbox object this session's command in
        flight actually delivered into (it may have been renamed meanwhile); falls back
        to the object now behind `name`."""
        arr = self._cmd_arrivals.get(s) or []
        if arr and all(a[0] == arr[0][0] for a in arr):
            return arr[0][0], self.validity_idx(arr[0][1]._uid_validity)
        if arr:
            return '', 0           # delivered into several objects: nothing is demanded
        return self.obj_of(name), self._real_validity(name)

    def _real_validity(self, mbx: str) -> int:
        data = self._data(mbx)
        return self.validity_idx(data._uid_validity) if data is not None else 0

    def _copyuid(self, s: str, args: str, inf=None) -> None:
        inf = inf or self.inflight[s]
        v, src, dst = args.split(' ')
        dest = inf['cmd'][3] if inf else ''
        o, realv = self._delivered_to(s, dest)
        self.events.append({'e': 'copyuid', 's': s, 'v': self.validity_idx(int(v)),
                            'addressed': (inf.get('addressed') if inf else None) or [],
                            'hasaddr': bool(inf and inf.get('addressed') is not None),
                            'realv': realv,
                            'srcobj': inf.get('srcobj', '') if inf else '',
                            'dstobj': o,
                            'src': _expand(src), 'dst': _expand(dst),
                            'move': bool(inf and inf['cmd'][0] == 'move'),
                            # the object the selection was made on / the one now behind its name
                            'bound': self._bound.get(s, '') if self.backend == 'dict' else '',
                            'nowobj': (self.obj_of(self.selected_name(s)) or '')
                            if self.backend == 'dict' and self.selected_name(s) else ''})

    # -- driver actions ------------------------------------------------------------

    def busy(self, s: str) -> bool:
        return self.inflight[s] is not None

    def can_issue(self, s: str) -> bool:
        return self.inflight[s] is None and not self.w.conns[s].done

    def issue(self, s: str, cmd: tuple) -> None:
        c = self.w.conns[s]
        if cmd[0] in ('done', 'notdone'):
            self.note(e='issue', s=s, cmd=[cmd[0]])
            if self.inflight[s] is not None:
                self.inflight[s]['ended_by'] = cmd[0]
            c.feed(b'DONE\r\n' if cmd[0] == 'done' else b'NOOP\r\n')
            return
        line, kind = concretise(cmd, self.msgno)
        view = self.server_view(s)
        addressed = None
        if cmd[0] in ('store', 'copy', 'move') and view is not None:
            addressed = self._addressed(view, cmd[1], cmd[2])
        self.tags[s] += 1
        tag = f'{s}{self.tags[s]}'.encode()
        self._cmd_arrivals[s] = []
        target = None
        if cmd[0] in ('select', 'examine', 'status') and self.backend == 'dict':
            data = self._data(cmd[1])
            if data is not None:
                target = (self.obj_of(cmd[1]), max(data._messages, default=0))
        cids = None
        if cmd[0] in ('append', 'appendcancel'):
            cids = list(range(self.msgno[0] - cmd[2] + 1, self.msgno[0] + 1))
        srcobj = ''
        if cmd[0] in ('copy', 'move') and self.backend == 'dict':
            nm = self.selected_name(s)
            srcobj = self.obj_of(nm) if nm else ''
        self.inflight[s] = {'cmd': cmd, 'addressed': addressed, 'tag': tag,
                            'wasro': self.selected_ro(s), 'target': target, 'cids': cids,
                            'srcobj': srcobj}
        self.events.append({'e': 'start', 's': s, 'k': kind, 'selected': view is not None,
                            'view': view or [], 'cmd': list(map(_j, cmd)),
                            'mbx': self.selected_name(s) or ''})
        if cmd[0] == 'store' and cmd[4] and addressed is not None:
            # the client assumes its own silent change when it sends the command;
            # any FLAGS it is told afterwards override the assumption
            self.events.append({'e': 'silent', 's': s, 'uids': addressed, 'op': cmd[3],
                                'flags': list(cmd[5])})
        c.feed(tag + b' ' + line + b'\r\n')

    @staticmethod
    def _addressed(view, uidmode, sset: str):
        """UIDs a sequence/uid set addresses in `view` (client side bookkeeping
        for the STORE.SILENT assumption only)."""
        n = len(view)
        star = (view[-1] if view else 0) if uidmode else n
        out = set()
        for part in sset.split(','):
            lo, _, hi = part.partition(':')
            lo_v = star if lo == '*' else int(lo)
            hi_v = lo_v if not hi else (star if hi == '*' else int(hi))
            a, b = min(lo_v, hi_v), max(lo_v, hi_v)
            if uidmode:
                out.update(u for u in view if a <= u <= b)
            else:
                out.update(view[i - 1] for i in range(a, b + 1) if 1 <= i <= n)
        return sorted(out)

    def parked(self, s: str):
        return self.w.conns[s].parked

    def runnable(self, s: str) -> bool:
        """has something to do without new client input"""
        c = self.w.conns[s]
        if c.done:
            return False
        if c.parked is not None:
            return True
        return s in self.w.loop.ready_owners()

    def step(self, s: str) -> str | None:
        """advance s to its next parking point"""
        c = self.w.conns[s]
        before = c.parked
        if before is not None:
            self.w.step(s)
        else:
            self.w.run(s)
        self.note(e='step', s=s, frm=before or 'run', to=c.parked or 'rest')
        self.collect(s)
        return before

    def micro(self, s: str) -> None:
        """run exactly ONE ready handle of s (finer than a checkpoint step: lets another
        session act between two tasks of the same connection, e.g. between the task that
        reads DONE and the task that computes the IDLE updates)"""
        if s in self.w.ck.parked or self.w.conns[s].writer.drain_fut is not None:
            self.step(s)
            return
        self.w.loop.run_owner(s, max_handles=1)
        self.note(e='micro', s=s)
        self.collect(s)

    def finish(self, s: str, limit: int = 500) -> None:
        """run s until its command completes (or it idles / blocks)"""
        n = 0
        self.w.run(s)
        self.collect(s)
        while self.w.conns[s].parked is not None or (
                self.backend != 'dict' and self.inflight.get(s) is not None
                and not self.idling.get(s) and not self.w.conns[s].done
                and self._sleeping(s)):
            if self.w.conns[s].parked is not None:
                self.w.step(s)
            else:
                # waiting for a lock file held by a session that is parked elsewhere: its
                # retry timer fires
                self.w.loop.advance_to_next_timer(self.w.loop.time() + 1.0)
                self.w.run(s)
            self.collect(s)
            n += 1
            if n > limit:
                self.errors.append(f'{s}: more than {limit} checkpoints in one command')
                break

    def _sleeping(self, s: str) -> bool:
        from .vloop import VLoop
        loop = self.w.loop
        return any(not h._cancelled and VLoop.owner_of(h) == s and h._when <= loop.time() + 1.0
                   for h in loop._scheduled)

    def quiesce(self, budget: int = 200000) -> None:
        """FIFO until nothing is runnable (lock checkpoints are released as they
        are reached)."""
        w = self.w
        for _ in range(budget):
            n = w.loop.run_all()
            released = False
            for s in self.sessions:
                if s in w.ck.parked:
                    w.ck.release(s)
                    released = True
                c = w.conns[s]
                if c.writer.drain_fut is not None:
                    c.writer.release_drain()
                    released = True
            if not n and not released:
                # maildir: IDLE polls once a second and a contended lock file is retried
                # after a sleep - let (virtual) time pass, boundedly
                if self.backend != 'dict':
                    if not hasattr(self, '_q_deadline') or self._q_deadline is None:
                        self._q_deadline = w.loop.time() + 2.5
                    if w.loop.advance_to_next_timer(self._q_deadline):
                        continue
                break
        self._q_deadline = None
        self.collect()

    def probe(self) -> None:
        """every selected, idle-at-rest session issues NOOP; then the store's
        truth is logged next to it (C02)."""
        for s in self.sessions:
            if self.w.conns[s].done or self.busy(s):
                continue
            if self.server_view(s) is None:
                continue
            self.issue(s, ('noop',))
            self.finish(s)
            name = self.selected_name(s)
            if name is None:
                continue
            uids, flags = self.truth(name)
            self.events.append({'e': 'probe', 's': s, 'uids': uids, 'flags': flags, 'mbx': name})

    def idlecheck(self) -> None:
        for s in self.sessions:
            if self.idling.get(s) and not self.w.conns[s].done:
                name = self.selected_name(s)
                uids, flags = self.truth(name)
                self.events.append({'e': 'idleview', 's': s, 'view': self.server_view(s) or []})
                self.events.append({'e': 'idlecheck', 's': s, 'uids': uids,
                                    'flags': flags, 'mbx': name})

    def reconnect(self, s: str, how: str = 'eof') -> None:
        """the connection of s ends (how: 'bad+logout' | 'eof' | 'idle+eof' | 'bad+idle+eof') and
        s comes back on a new connection, logged in, nothing selected"""
        w = self.w
        c = w.conns[s]
        if 'bad' in how:
            c.feed(b'zz FETCH (\r\n')          # does not parse
            w.run_to_completion(s)
        if 'idle' in how:
            c.feed(b'zi IDLE\r\n')
            w.run_to_completion(s)
        if 'logout' in how:
            c.feed(b'zl LOGOUT\r\n')
            w.run_to_completion(s)
        if not c.done:
            c.eof()
            w.run_to_completion(s)
        w.loop.run_all()
        self.events.append({'e': 'drop', 's': s, 'at': how})
        c = w.connect(s)
        c.take()
        w.login(s)
        c.take()
        self.parse_off[s] = len(c.writer.out)
        self.inflight[s] = None
        self.idling[s] = False

    def unanswered_idle(self) -> None:
        """after everything has settled: an IDLE that was ended by client input and still has
        no tagged response (cond NONE fails C16_DoneEndsOk / OtherEndsBad)"""
        for s in self.sessions:
            inf = self.inflight.get(s)
            if inf and inf['cmd'][0] == 'idle' and inf.get('ended_by') \
                    and not self.w.conns[s].done:
                self.events.append({'e': 'idleend', 's': s, 'input': inf['ended_by'],
                                    'cond': 'NONE'})

    def cancel(self, s: str) -> None:
        c = self.w.conns[s]
        self.note(e='cancel', s=s, at=c.parked or 'rest')
        c.task.cancel()
        if s in self.w.ck.parked:
            self.w.ck.parked.pop(s, None)
        self.w.run(s)
        self.collect()

    def drop(self, s: str) -> None:
        c = self.w.conns[s]
        self.note(e='drop', s=s, at=c.parked or 'rest')
        c.eof()
        self.w.run(s)
        self.collect()

    def gate(self, s: str, on: bool) -> None:
        """a slow client: writes to s block in drain() until the gate is opened"""
        self.w.conns[s].writer.gate_drain = bool(on)

    def make_readonly_box(self, name: str = 'RO', n: int = 2) -> None:
        """a backend-read-only mailbox with n messages, as pymap's demo data makes one (C12)"""
        s0 = self.sessions[0]
        for _ in range(n):
            self.w.cmd(s0, b'APPEND ' + name.encode() + b' {3+}\r\nx\r\n')
        self.w.conns[s0].take()
        self.parse_off[s0] = len(self.w.conns[s0].writer.out)
        self.w.mailbox_set()._set[name]._readonly = True
        self._known_uids = self.store_uids()

    def deliver_external(self, mbx: str = 'INBOX') -> None:
        """maildir only: a mail delivery agent drops a file into new/ (no info suffix, no UID
        record) behind the server's back"""
        from . import maildirsrv
        self._ext = getattr(self, '_ext', 0) + 1
        name = maildirsrv.deliver(self.w, mbx, self._ext)
        self.events.append({'e': 'external', 'mbx': mbx, 'file': name})

    def close(self) -> None:
        self.w.close()


def _expand(uset: str) -> list:
    out = []
    for part in uset.split(','):
        a, _, b = part.partition(':')
        if b:
            lo, hi = int(a), int(b)
            out.extend(range(min(lo, hi), max(lo, hi) + 1))
        else:
            out.append(int(a))
    return out


def _j(x):
    return list(x) if isinstance(x, tuple) else x


def _jd(x):
    """deep JSON-able copy (tuples and sets become lists)"""
    if isinstance(x, (tuple, list)):
        return [_jd(y) for y in x]
    if isinstance(x, (set, frozenset)):
        return sorted(_jd(y) for y in x)
    if isinstance(x, dict):
        return {str(k): _jd(v) for k, v in x.items()}
    if isinstance(x, bytes):
        return x.decode('latin1')
    return x


def run_schedule(schedule: list, **kw) -> SyncRun:
    """Execute a list of driver actions; returns the SyncRun (already closed)."""
    r = SyncRun(**kw)
    try:
        for act in schedule:
            k = act[0]
            if k == 'issue':
                if r.can_issue(act[1]) or act[2][0] in ('done', 'notdone'):
                    r.issue(act[1], tuple(act[2]))
                else:
                    r.note(e='skipped', s=act[1])
            elif k == 'step':
                r.step(act[1])
            elif k == 'finish':
                r.finish(act[1])
            elif k == 'micro':
                r.micro(act[1])
            elif k == 'cmd':
                if r.can_issue(act[1]):
                    r.issue(act[1], tuple(act[2]))
                    r.finish(act[1])
            elif k == 'quiesce':
                r.quiesce()
            elif k == 'probe':
                r.quiesce()
                r.probe()
            elif k == 'idlecheck':
                r.quiesce()
                r.idlecheck()
            elif k == 'cancel':
                r.cancel(act[1])
            elif k == 'drop':
                r.drop(act[1])
            else:
                raise ValueError(act)
    finally:
        r.close()
    return r


def _tup(x):
    return tuple(_tup(y) for y in x) if isinstance(x, list) else x


_RECORDED = ('issue', 'step', 'micro', 'finish', 'quiesce', 'probe', 'idlecheck', 'reconnect',
             'unanswered_idle', 'cancel', 'drop', 'dump', 'state_event', 'gate', 'make_readonly_box',
             'deliver_external')


def _recording(name, fn):
    def wrapper(self, *a, **kw):
        if self._rec_depth == 0:
            self.recipe['actions'].append([name, _jd(list(a)), _jd(kw)])
        self._rec_depth += 1
        try:
            return fn(self, *a, **kw)
        finally:
            self._rec_depth -= 1
    wrapper.__name__ = name
    wrapper.__doc__ = fn.__doc__
    return wrapper


for _n in _RECORDED:
    setattr(SyncRun, _n, _recording(_n, getattr(SyncRun, _n)))


def run_recipe(recipe: dict) -> SyncRun:
    """Set a run up as recorded and repeat every driver action on it; returns the SyncRun
    (closed).  An action that cannot be repeated (the server is not where it was) ends the
    replay there."""
    init = dict(recipe['init'])
    init['init_flags'] = [_tup(f) for f in init.get('init_flags') or []]
    if isinstance(init.get('claim_recent'), list):
        init['claim_recent'] = set(init['claim_recent'])
    old = FETCH_SUBJECT[0]
    FETCH_SUBJECT[0] = bool(recipe.get('fetch_subject'))
    r = SyncRun(**init)
    try:
        for name, a, kw in recipe['actions']:
            try:
                getattr(r, name)(*[_tup(x) for x in a], **kw)
            except Exception as exc:      # noqa: BLE001
                r.errors.append(f'replay stopped at {name}{a}: {exc!r}')
                break
    finally:
        r.close()
        FETCH_SUBJECT[0] = old
    return r
