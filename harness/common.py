"""Shared plumbing of the checks: tiers, seeds, evidence, known findings,
violation reporting."""

from __future__ import annotations

import hashlib
import json
import os
import sys
import time

ROOT = os.path.dirname(os.path.dirname(os.path.abspath(__file__)))
EVIDENCE_DIR = os.path.join(ROOT, 'evidence')
REPLAY_DIR = os.path.join(ROOT, 'replays')
KNOWN_DIR = os.path.join(ROOT, 'known')


def seed() -> int:
    try:
        return int(os.environ.get('VERIF_SEED', '0'))
    except ValueError:
        return 0


def digest(obj) -> str:
    return hashlib.sha1(json.dumps(obj, sort_keys=True, default=repr)
                        .encode()).hexdigest()[:16]


class Known:
    """/verif/known/<property>.json, read-only at run time.

    entries: {"property": "C02", "id": "ExpungeRecordOverwritten",
              "status": "open"|"fixed", "what": "...", "signature": {...},
              "commit": "..."}
    Only *open* entries excuse anything, and only executions whose signature
    (computed by the check) equals the entry's id."""

    def __init__(self, prop: str):
        self.prop = prop
        self.open: dict[str, dict] = {}
        self.fixed: dict[str, dict] = {}
        try:
            data = json.load(open(os.path.join(KNOWN_DIR, prop + '.json')))
        except FileNotFoundError:
            data = {'findings': []}
        for e in data.get('findings', []):
            if e.get('property') != prop:
                continue
            if e.get('status') == 'open':
                self.open[e['id']] = e
            else:
                self.fixed[e['id']] = e
        self.seen: dict[str, int] = {}

    def excuses(self, sig: str | None) -> bool:
        if sig is not None and sig in self.open:
            self.seen[sig] = self.seen.get(sig, 0) + 1
            return True
        return False

    def print_seen(self) -> None:
        for sig, n in sorted(self.seen.items()):
            e = self.open[sig]
            print(f'KNOWN-FINDING: property={self.prop} {sig}: {e["what"]} '
                  f'(seen in {n} executions)')


def _plain(x, depth: int = 0):
    """a JSON-able, bounded rendering of an execution's identity"""
    if isinstance(x, (bytes, bytearray)):
        return bytes(x[:200]).decode('latin1')
    if isinstance(x, str):
        return x[:300]
    if isinstance(x, (int, float, bool)) or x is None:
        return x
    if isinstance(x, dict) and depth < 4:
        return {str(k)[:80]: _plain(v, depth + 1) for k, v in list(x.items())[:20]}
    if isinstance(x, (list, tuple, set, frozenset)) and depth < 4:
        return [_plain(v, depth + 1) for v in list(x)[:20]]
    return repr(x)[:300]


class Run:
    """One invocation of one check."""

    def __init__(self, prop: str, tier: str, level: str = 'model_checking'):
        self.prop = prop
        self.tier = tier
        self.level = level
        self.seed = seed()
        self.t0 = time.time()
        self.known = Known(prop)
        self.violations: list[dict] = []
        self.cov: dict = {
            'states': 0, 'transitions': 0,
            'traces_validated_against_impl': 0,
            'evaluations': 0, 'distinct_nontrivial': 0,
            'samples': [], 'rule': '', 'exhaustive': False,
        }
        self.assumptions: list[str] = []
        self.drift: list = []
        self.notes: dict = {}
        self._nontrivial: set[str] = set()
        self._first_execs: list = []
        self.machinery_errors: list[str] = []

    # -- accounting ----------------------------------------------------------

    def add_model(self, res, name: str = '') -> None:
        """TLCResult of an exhaustive/simulation run on the model."""
        self.cov['states'] += res.distinct or res.generated
        self.cov['transitions'] += res.generated
        self.notes.setdefault('tlc_runs', []).append({
            'name': name, 'distinct': res.distinct,
            'generated': res.generated, 'depth': res.depth,
            'wall_s': round(res.wall_s, 1), 'ok': res.ok,
            'violated': res.violated})

    def count_exec(self, signature=None, nontrivial: bool = False,
                   validated: bool = True) -> None:
        self.cov['evaluations'] += 1
        if validated:
            self.cov['traces_validated_against_impl'] += 1
        # what was executed, for the evidence: the first executions' identities (used as
        # samples when the check records none of its own)
        if signature is not None and len(self._first_execs) < 3 and (
                nontrivial or not self._first_execs):
            self._first_execs.append({'execution': _plain(signature), 'nontrivial': nontrivial,
                                      'validated': validated})
        if nontrivial and signature is not None:
            self._nontrivial.add(signature if isinstance(signature, str)
                                 else digest(signature))

    def sample(self, obj, limit: int = 3) -> None:
        if len(self.cov['samples']) < limit:
            self.cov['samples'].append(obj)

    # -- verdicts ------------------------------------------------------------

    def violation(self, what: str, replay: dict, sig: str | None = None) -> bool:
        """Returns True if it counts (not excused by an open known finding)."""
        if self.known.excuses(sig):
            return False
        os.makedirs(REPLAY_DIR, exist_ok=True)
        rid = digest(replay)
        path = os.path.join(REPLAY_DIR, f'{self.prop}_{rid}.json')
        if len(self.violations) < 20:
            with open(path, 'w') as f:
                json.dump({'property': self.prop, 'what': what,
                           'signature': sig, 'replay': replay}, f, indent=1,
                          default=repr)
            print(f'VIOLATION property={self.prop} replay={path}')
            print(f'  {what}')
        elif os.environ.get('VERIF_VERBOSE'):
            print(f'  + {what[:300]}')
        self.violations.append({'what': what, 'sig': sig, 'replay': path})
        return True

    def machinery(self, msg: str) -> None:
        self.machinery_errors.append(msg)
        print(f'MACHINERY-ERROR {self.prop}: {msg}', file=sys.stderr)

    def finish(self) -> int:
        self.cov['distinct_nontrivial'] = len(self._nontrivial)
        if not self.cov['samples']:
            self.cov['samples'] = list(self._first_execs)
        ev = {
            'property_id': self.prop,
            'tier': self.tier,
            'seed': self.seed,
            'level': self.level,
            'coverage': self.cov,
            'assumptions': self.assumptions,
            'wall_s': round(time.time() - self.t0, 2),
            'violations': len(self.violations),
        }
        ev['coverage']['known_findings_seen'] = dict(self.known.seen)
        ev['coverage']['drift'] = self.drift[:10]
        ev['coverage']['drift_count'] = len(self.drift)
        ev['coverage'].update(self.notes)
        if self.machinery_errors:
            ev['coverage']['machinery_errors'] = self.machinery_errors[:5]
        os.makedirs(EVIDENCE_DIR, exist_ok=True)
        with open(os.path.join(EVIDENCE_DIR, f'{self.prop}.json'), 'w') as f:
            json.dump(ev, f, indent=1, default=repr)
        self.known.print_seen()
        n = len(self.violations)
        print(f'{self.prop} [{self.tier}] executions={self.cov["evaluations"]} '
              f'validated={self.cov["traces_validated_against_impl"]} '
              f'nontrivial={self.cov["distinct_nontrivial"]} '
              f'model_states={self.cov["states"]} drift={len(self.drift)} '
              f'violations={n} wall={ev["wall_s"]}s')
        if self.machinery_errors:
            return 2
        return 1 if n else 0
