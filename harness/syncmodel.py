"""Binding between MailboxSync.tla behaviours and the real server (dict backend):
each TLC action is concretised into one IMAP command on the named session, run
under the checkpoint scheduler, and after every step the real state and the real
response are compared with the spec state (`out[s]`, store, views).  Differences
are DRIFT; violations are decided by the observer trace specs on the recorded
events."""

from __future__ import annotations

from . import tlc
from .syncrun import SyncRun

FLAG = {'D': '\\Deleted', 'S': '\\Seen', 'F': '\\Flagged', 'A': '\\Answered', 'R': '\\Recent'}
LETTER = {v: k for k, v in FLAG.items()}
BASE = 100


def tgt_set(uidmode: bool, tgt: int) -> str:
    if tgt == 0:
        return '1:*'
    return str(BASE + tgt) if uidmode else str(tgt)


def concretise_action(label: str):
    """-> (session, abstract command tuple for SyncRun)"""
    name, a = tlc.parse_label(label)
    s = str(a[0])
    if name == 'Select':
        return s, (('examine', 'INBOX') if a[1] else ('select', 'INBOX'))
    if name == 'Close':
        return s, ('close',)
    if name == 'Noop':
        return s, ('noop',)
    if name == 'Check':
        return s, ('check',)
    if name == 'AppendMsg':
        return s, ('append', 'INBOX', 1, ())
    if name == 'Store':
        _, um, tgt, add, f, si = a
        return s, ('store', bool(um), tgt_set(um, tgt), '+' if add else '-', bool(si), (FLAG[f],))
    if name == 'Fetch':
        _, um, tgt, seen = a
        return s, ('fetch', bool(um), tgt_set(um, tgt), bool(seen))
    if name == 'Expunge':
        tgt = a[1]
        return s, (('expunge',) if tgt == 0 else ('uidexpunge', str(BASE + tgt)))
    if name == 'Move':
        _, um, tgt = a
        return s, ('move', bool(um), tgt_set(um, tgt), 'Box')
    if name == 'Copy':
        _, um, tgt = a
        return s, ('copy', bool(um), tgt_set(um, tgt), 'Box')
    if name == 'Search':
        _, um = a
        return s, ('search', bool(um), 'DELETED')
    raise ValueError(label)


def letters(flags) -> frozenset:
    return frozenset(LETTER.get(f, f) for f in flags)


def real_out(run: SyncRun, s: str, since: int):
    """the response of the last command of s as the spec's out[s] would be"""
    un = []
    cond = None
    for ev in run.events[since:]:
        if ev.get('s') != s:
            continue
        e = ev['e']
        if e == 'expunge':
            un.append(('expunge', ev['n'], 0, frozenset()))
        elif e == 'exists':
            un.append(('exists', ev['n'], 0, frozenset()))
        elif e == 'recent':
            un.append(('recent', ev['n'], 0, frozenset()))
        elif e == 'fetch':
            un.append(('fetch', ev['n'], (ev['uid'] - BASE) if ev['uid'] else 0,
                       letters(ev['flags'])))
        elif e == 'tagged':
            cond = ev['cond']
    return cond, un


def spec_out(st: dict, s):
    o = st['out'][s]
    return o['cond'], [(r['k'], r['n'], r['u'], frozenset(r['f'])) for r in o['un']]


def real_state(run: SyncRun) -> dict:
    mset = run.w.mailbox_set()
    inbox = mset._inbox
    ex = frozenset(u - BASE for u in inbox._messages)
    st = {
        'ex': ex,
        'fl': {u - BASE: letters(bytes(f).decode() for f in m.permanent_flags)
               for u, m in inbox._messages.items()},
        'rbit': {u - BASE: bool(m.recent) for u, m in inbox._messages.items()},
        'maxuid': inbox._max_uid - BASE,
        'sel': {}, 'view': {}, 'pend': {}, 'srec': {},
    }
    box = mset._set.get('Box')
    st['box'] = len(box._messages) if box is not None else 0
    for s in run.sessions:
        cs = run.w.conns[s].state
        sel = cs._selected if cs is not None else None
        if sel is None:
            st['sel'][s] = 'none'
            st['view'][s] = frozenset()
            st['pend'][s] = frozenset()
            st['srec'][s] = frozenset()
        else:
            st['sel'][s] = 'ro' if sel.readonly else 'rw'
            v = frozenset(u - BASE for u in sel.messages._sorted)
            st['view'][s] = v
            st['pend'][s] = frozenset(u - BASE for u in sel.messages._pending_remove)
            st['srec'][s] = frozenset(u - BASE for u in sel.session_flags._recent) & v
    return st


def spec_state(st: dict, sessions) -> dict:
    ex = frozenset(st['ex'])
    fl = st['fl']      # tuple indexed 1..MaxUid (TLC prints functions over 1..n as tuples)
    rb = st['rbit']

    def at(f, u):
        return f[u - 1] if isinstance(f, tuple) else f[u]
    out = {
        'ex': ex,
        'fl': {u: frozenset(at(fl, u)) for u in ex},
        'rbit': {u: bool(at(rb, u)) for u in ex},
        'maxuid': st['maxuid'],
        'box': st['box'],
        'sel': {}, 'view': {}, 'pend': {}, 'srec': {},
    }
    for s in sessions:
        out['sel'][s] = st['sel'][s]
        v = frozenset(st['view'][s])
        out['view'][s] = v
        out['pend'][s] = frozenset(st['pend'][s])
        out['srec'][s] = frozenset(st['srec'][s]) & v
    return out


def _jsonable(x):
    if isinstance(x, (frozenset, set)):
        return sorted(map(_jsonable, x), key=repr)
    if isinstance(x, dict):
        return {str(k): _jsonable(v) for k, v in x.items()}
    if isinstance(x, (tuple, list)):
        return [_jsonable(v) for v in x]
    return x


def replay_behaviour(beh: list, *, sessions=('a', 'b'), controlled: bool = False):
    """beh: [(label, state), ...] from TLC (first = Init).  Returns
    (SyncRun (closed), drift or None, steps executed)."""
    init = beh[0][1]
    n_init = len(init['ex'])
    run = SyncRun(init_flags=((),) * n_init, sessions=sessions, controlled=controlled,
                  claim_recent=True)
    drift = None
    done = 0
    try:
        for label, st in beh[1:]:
            s, cmd = concretise_action(label)
            if not run.can_issue(s):
                drift = {'step': done, 'label': label, 'why': 'session cannot take a command'}
                break
            since = len(run.events)
            run.issue(s, cmd)
            run.finish(s)
            done += 1
            want_out = spec_out(st, s)
            got_out = real_out(run, s, since)
            want = spec_state(st, sessions)
            got = real_state(run)
            if want_out != got_out or want != got:
                diff = {k: (_jsonable(want[k]), _jsonable(got[k])) for k in want if want[k] != got[k]}
                if want_out != got_out:
                    diff['out'] = (_jsonable(want_out), _jsonable(got_out))
                nd = label.startswith('AppendMsg') and set(diff) <= {'srec', 'out', 'rbit'}
                drift = {'step': done, 'label': label, 'diff': diff, 'nondet': nd,
                         'labels': [b[0] for b in beh[1:done + 1]]}
                break
        run.probe()
    finally:
        run.close()
    return run, drift, done
