from __future__ import annotations

import argparse
import importlib
import os
import sys
import traceback


def main() -> int:
    ap = argparse.ArgumentParser()
    ap.add_argument('prop')
    ap.add_argument('--tier', default=os.environ.get('VERIF_TIER') or 'quick',
                    choices=['quick', 'thorough'])
    ap.add_argument('--replay')
    a = ap.parse_args()
    try:
        mod = importlib.import_module(f'harness.checks.{a.prop.lower()}')
    except ImportError:
        traceback.print_exc()
        return 2
    try:
        if a.replay:
            return mod.replay(a.replay)
        return mod.main(a.tier)
    except Exception:
        traceback.print_exc()
        return 2


if __name__ == '__main__':
    sys.exit(main())
