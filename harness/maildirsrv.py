"""Maildir backend, in-process, on a scratch directory (World('maildir', ...)).

MaildirBackend.init drops config overrides, so Config/Login are built directly
with the harness subsystem (asyncio, no thread pools).  Users are provisioned
through Identity.set (writes pymap-etc-* files in the base directory)."""

from __future__ import annotations

import os
import shutil
import tempfile

from pymap.concurrent import Subsystem


def init_world(world, base_dir, layout, tls, config_kw) -> None:
    from pymap.backend.maildir import Config, Login, MaildirBackend, Identity
    from pymap.user import UserMetadata, Passwords
    from .server import FakeArgs
    if base_dir is None:
        base_dir = tempfile.mkdtemp(prefix='verif.maildir.')
        world._own_dir = base_dir
    else:
        os.makedirs(base_dir, exist_ok=True)
        world._own_dir = None
    world.base_dir = base_dir
    world.layout = layout
    args = FakeArgs(tls=tls)
    kw = dict(base_dir=base_dir, layout=layout, colon=None, host=None, port=143,
              subsystem=world.sub, cpu_subsystem=Subsystem.for_asyncio(),
              hash_context=world.hash_context, invalid_user_sleep=0.0, tls_enabled=tls)
    kw.update(config_kw)
    world.colon = kw.get('colon') or ':'
    config = Config(args, **kw)
    login = Login(config)
    world.backend = MaildirBackend(login, config)
    world.config = config

    async def provision():
        pw = Passwords(config)
        for name, spec in world.users.items():
            if isinstance(spec, tuple):
                password, roles = spec
            else:
                password, roles = spec, frozenset()
            hashed = await pw.hash_password(password)
            ident = Identity(config, login.tokens, name, None, {'admin'})
            await ident.set(UserMetadata(config, name, password=hashed,
                                         roles=frozenset(roles),
                                         params={'mailbox_path': name}))
    if not os.path.exists(os.path.join(base_dir, 'pymap-etc-passwd')) \
            or config_kw.get('_provision', True):
        world.loop.run_coro(provision(), max_vtime=world.loop.time() + 60)


def cleanup(world) -> None:
    d = getattr(world, '_own_dir', None)
    if d:
        shutil.rmtree(d, ignore_errors=True)


def user_dir(world, user: str | None = None) -> str:
    user = user or next(iter(world.users))
    return os.path.join(world.base_dir, user)


def _folder_path(world, mbx: str, user: str | None = None) -> str:
    from pymap.backend.maildir.layout import MaildirLayout
    from pymap.backend.maildir.mailbox import Maildir
    layout = MaildirLayout.get(user_dir(world, user), world.layout, Maildir)
    if mbx.upper() == 'INBOX':
        return layout.path
    return layout.get_path(mbx, '/')


def read_uidlist(path: str):
    """parse dovecot-uidlist independently of pymap: (validity, next_uid,
    [(uid, filename-key)])"""
    fn = os.path.join(path, 'dovecot-uidlist')
    if not os.path.exists(fn):
        return None, None, []
    with open(fn, 'r', errors='replace') as f:
        lines = f.read().split('\n')
    head = lines[0].split()
    validity = next_uid = None
    for tok in head[1:]:
        if tok.startswith('V'):
            validity = int(tok[1:])
        elif tok.startswith('N'):
            next_uid = int(tok[1:])
    recs = []
    for ln in lines[1:]:
        if not ln.strip():
            continue
        left, _, fname = ln.partition(':')
        uid = int(left.split()[0])
        recs.append((uid, fname.strip()))
    return validity, next_uid, recs


def truth(world, mbx: str, user: str | None = None):
    """sorted uids and flags (as IMAP flag strings) from the directory listing +
    uidlist, independently of pymap"""
    path = _folder_path(world, mbx, user)
    _v, _n, recs = read_uidlist(path)
    files = {}
    for sub in ('new', 'cur'):
        d = os.path.join(path, sub)
        if os.path.isdir(d):
            for fn in os.listdir(d):
                key, _, info = fn.partition(':')
                files[key] = info
    m = {'S': '\\Seen', 'T': '\\Deleted', 'F': '\\Flagged', 'R': '\\Answered', 'D': '\\Draft'}
    uids, flags = [], []
    for uid, fname in sorted(recs):
        key = fname.partition(':')[0]
        if key in files:
            info = files[key]
            fl = sorted(m[c] for c in info.partition(',')[2] if c in m) if info.startswith('2,') else []
            uids.append(uid)
            flags.append(fl)
    return uids, flags


def dump(world, mbx: str, user: str | None = None):
    """(uids, flags, rbits) of a folder, read from the directory and the uidlist independently
    of pymap: flags are the IMAP names of the info letters (keyword letters a-z as written),
    the stored recent bit of a message is "its file is in new/" - what the next read-write
    SELECT would claim (C12 on maildir)"""
    path = _folder_path(world, mbx, user)
    _v, _n, recs = read_uidlist(path)
    files = {}
    for sub in ('new', 'cur'):
        d = os.path.join(path, sub)
        if os.path.isdir(d):
            for fn in os.listdir(d):
                key, _, info = fn.partition(getattr(world, 'colon', ':'))
                files[key] = (sub, info, os.path.getsize(os.path.join(d, fn)))
    m = {'S': '\\Seen', 'T': '\\Deleted', 'F': '\\Flagged', 'R': '\\Answered', 'D': '\\Draft'}
    uids, flags, rbits = [], [], []
    for uid, fname in sorted(recs):
        key = fname.partition(':')[0]
        if key in files:
            sub, info, size = files[key]
            letters = info.partition(',')[2] if info.startswith('2,') else ''
            uids.append(uid)
            # the stored attributes of the message: flag letters and the size of its file
            flags.append(sorted(m.get(c, 'kw-' + c) for c in letters) + [f'size-{size}'])
            rbits.append(sub == 'new')
    # pseudo-row 0: the UIDVALIDITY written in the control file
    return [0] + uids, [[f'validity-{_v}']] + flags, [False] + rbits


def deliver(world, mbx: str, n: int, user: str | None = None) -> str:
    """what a mail delivery agent does, without pymap: write the message to tmp/, rename it into
    new/ under a unique name WITHOUT an info suffix (no ":2,").  The backend learns of the file
    at its next reset() (SELECT / EXAMINE / the poll of a selected mailbox)."""
    path = _folder_path(world, mbx, user)
    name = f'1700000000.M{n}P1.verif'
    body = (f'From: mda{n}@verif.test\nSubject: m{9000 + n}\n\nexternal delivery {n}\n').encode()
    tmp = os.path.join(path, 'tmp', name)
    with open(tmp, 'wb') as f:
        f.write(body)
    os.rename(tmp, os.path.join(path, 'new', name))
    return name


def store_uids(world, user: str | None = None) -> dict:
    out = {}
    try:
        names = ['INBOX']
        ud = user_dir(world, user)
        # best effort: folders as sub-directories per layout are resolved lazily by name
        for mbx in list(getattr(world, 'known_boxes', ['Box'])):
            names.append(mbx)
        for n in names:
            try:
                out[n] = set(truth(world, n, user)[0])
            except Exception:
                pass
    except Exception:
        pass
    return out
