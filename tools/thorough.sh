#!/bin/sh
# sequential thorough runs against the repo snapshot
export VERIF_REPO=$VP_RUN_REPO
for id in "$@"; do
  s=$(date +%s)
  ./check $id --tier thorough > thorough_$id.log 2>&1; rc=$?
  e=$(date +%s)
  echo "rc=$rc secs=$((e-s)) $(grep -v auto_activate thorough_$id.log | grep -v '^KNOWN' | tail -1 | cut -c1-220)"
done
