#!/bin/sh
# usage: tools/try_mut_wt.sh <patch.diff> <check id> [seed]  -- as try_mut.sh, but the change is applied
# to a scratch worktree of /repo (/tmp/wt_try_<id>, made on demand) and the quick check runs against
# it through VERIF_REPO, so /repo itself is never touched (background runs use /repo) and different
# properties can be tried side by side.  Remove the worktrees afterwards:
#   git -C /repo worktree remove --force /tmp/wt_try_<id>
P=$(readlink -f $1); ID=$2; SEED=${3:-0}; WT=/tmp/wt_try_$ID
[ -d $WT ] || git -C /repo worktree add --detach $WT HEAD >/dev/null 2>&1 || exit 2
git -C $WT checkout -q -- . ; git -C $WT apply $P || { echo "PATCH DOES NOT APPLY"; exit 2; }
cp /verif/evidence/$ID.json /tmp/try_mut_wt.$ID.ev 2>/dev/null
cd /verif && VERIF_REPO=$WT VERIF_SEED=$SEED ./check $ID --tier quick > /tmp/try_mut_wt.$ID.log 2>&1; RC=$?
git -C $WT checkout -q -- .
[ -f /tmp/try_mut_wt.$ID.ev ] && mv /tmp/try_mut_wt.$ID.ev /verif/evidence/$ID.json
grep -v auto_activate /tmp/try_mut_wt.$ID.log | grep -A1 "^VIOLATION" | head -6 | cut -c1-300
grep -v auto_activate /tmp/try_mut_wt.$ID.log | tail -1 | cut -c1-200
rm -f /tmp/try_mut_wt.$ID.log
echo "exit=$RC"
