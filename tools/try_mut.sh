#!/bin/sh
# usage: tools/try_mut.sh <patch.diff> <check id> [seed]  -- applies the change to /repo, runs the quick
# check, undoes it straight afterwards.  Prints the exit code and the first VIOLATION lines.
P=$1; ID=$2; SEED=${3:-0}
cd /repo && git diff --quiet || { echo "/repo not clean"; exit 2; }
git -C /repo apply $P || exit 2
# the evidence file must only ever come from a run on the unchanged tree: keep it aside
cp /verif/evidence/$ID.json /tmp/try_mut.$$.ev 2>/dev/null
cd /verif && VERIF_SEED=$SEED ./check $ID --tier quick > /tmp/try_mut.$$.log 2>&1; RC=$?
git -C /repo checkout -- .
[ -f /tmp/try_mut.$$.ev ] && mv /tmp/try_mut.$$.ev /verif/evidence/$ID.json
grep -v auto_activate /tmp/try_mut.$$.log | grep -A1 "^VIOLATION" | head -6 | cut -c1-260
grep -v auto_activate /tmp/try_mut.$$.log | tail -1 | cut -c1-200
rm -f /tmp/try_mut.$$.log
echo "exit=$RC"
