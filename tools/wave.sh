#!/bin/sh
# usage: tools/wave.sh <ID> [check ids...]  -- confirm the three seeded changes of /tmp/wt_<ID> and try each against the checks
ID=$1; shift; CHECKS=${*:-$ID}
for n in 1 2 3; do
  echo "== $ID/$n: $(head -c 300 ${WTP:-/tmp/wt}_$ID/_mut/$n/notes.md | head -3 | tr '\n' ' ')"
  tools/confirm_mut.sh ${WTP:-/tmp/wt}_$ID $n
  for c in $CHECKS; do tools/try_mut.sh ${WTP:-/tmp/wt}_$ID/_mut/$n/patch.diff $c 1; done
done
