#!/usr/bin/env python3
"""usage: keep_mut.py <worktree> <n> <property> <name> <caught: yes|no|partly> <by> [needs...]
copies a confirmed seeded change to /verif/seeded/<property>-<name>/ with meta.json"""
import json, os, shutil, sys
wt, n, prop, name, caught, by = sys.argv[1:7]
needs = ' '.join(sys.argv[7:])
src = os.path.join(wt, '_mut', n)
dst = os.path.join('/verif/seeded', f'{prop}-{name}')
os.makedirs(dst, exist_ok=True)
for f in os.listdir(src):
    if os.path.isfile(os.path.join(src, f)):
        shutil.copy(os.path.join(src, f), dst)
notes = open(os.path.join(src, 'notes.md')).read() if os.path.exists(os.path.join(src, 'notes.md')) else ''
meta = {'property': prop, 'name': name, 'needs_to_manifest': needs or notes[:600],
        'confirmed': 'patch applies on the fixed tree; suite 300 passed with it; demonstration fails with it and passes without it (tools/confirm_mut.sh in a scratch worktree)',
        'ran': f'tools/try_mut.sh seeded/{prop}-{name}/patch.diff {prop}',
        'caught': caught, 'caught_by': by}
json.dump(meta, open(os.path.join(dst, 'meta.json'), 'w'), indent=1)
with open('/verif/seeded/README.md', 'a') as f:
    f.write(f'- **{prop}-{name}**: {needs or "see notes.md"} — caught: {caught} ({by})\n')
print(dst)
