#!/usr/bin/env python3
"""usage: mk_mut_prompt.py <property id> <worktree> > prompt   -- the brief a mutation sub-agent gets:
tools/mut_prompt.txt with the worktree path and the property's text (title, statement, quantifier,
anchored files) filled in; nothing else from /verif."""
import json, sys
pid, wt = sys.argv[1:3]
for line in open('/verif/properties.jsonl'):
    d = json.loads(line)
    if d['id'] == pid:
        break
else:
    sys.exit('no such property')
text = (f"Property {pid}: {d['title']}\n\nStatement: {d['statement']}\n\n"
        f"Quantifier (what it must hold for): {d['quantifier']['text']}\n\n"
        f"Code it is anchored in: {', '.join(d['anchors']['files'])}\n")
t = open('/verif/tools/mut_prompt.txt').read()
out = t.replace('WT', wt).replace('PROPTEXT', text)
if len(sys.argv) > 3 and sys.argv[3] == 'wave3':
    out += ("\nTwo additions for this round. (1) If the property's anchored code includes "
            "pymap/backend/maildir/, ONE of your three changes may target the maildir backend instead "
            "of the dict backend (its demonstration then runs the maildir backend on a "
            "tempfile.mkdtemp() directory). (2) While you read and probe the UNMODIFIED worktree, note "
            "any input, history or interleaving that ALREADY violates the property there; spend at most "
            "a third of your effort on this, reproduce each with a small script under "
            f"{wt}/_mut/existing/<k>/demo.py (exit 1 = violated) and list them in a last section "
            "'Existing violations' of your final reply (say 'none found' otherwise). Prefer changes "
            "that need a multi-step history, an interleaving or a fault over one-line condition flips "
            "that the first obvious input exposes.\n")
print(out)
