#!/bin/sh
# usage: tools/confirm_mut.sh <worktree> <n>   -- confirms one seeded change in its scratch worktree:
# suite still 300 passed with the patch, demo fails with it, passes without it
WT=$1; N=$2; D=$WT/_mut/$N
cd $WT || exit 2
git checkout -q -- . ; git apply $D/patch.diff || { echo "PATCH DOES NOT APPLY"; exit 2; }
SUITE=$(/venv/bin/python -m pytest -q -p no:cacheprovider --timeout=900 --continue-on-collection-errors 2>&1 | grep -v auto_activate | tail -1)
DEMO=$(ls $D/demo.py $D/test_demo.py 2>/dev/null | head -1)
if echo $DEMO | grep -q test_demo; then RUN="/venv/bin/python -m pytest -q -p no:cacheprovider $DEMO"; else RUN="/venv/bin/python $DEMO"; fi
$RUN >/dev/null 2>&1; WITH=$?
git checkout -q -- .
$RUN >/dev/null 2>&1; WITHOUT=$?
echo "suite_with_patch='$SUITE' demo_with=$WITH demo_without=$WITHOUT"
