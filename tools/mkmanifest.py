#!/usr/bin/env python3
"""Regenerates /verif/MANIFEST.json from the table below (one source of truth)."""
import json, os, subprocess
ROOT = os.path.dirname(os.path.dirname(os.path.abspath(__file__)))
ALL = [f'C{i:02d}' for i in range(1, 21)]

CHECKS = {
 'C01': dict(
   technique='TLA+ model of the dict mailbox + selected-mailbox sync (MailboxSync.tla) checked by TLC; TLC behaviours replayed on the real server with state/response comparison; random checkpoint-interleaved multi-session executions validated by TLC against the client-view observer spec (Trace_Sync.tla)',
   level_text='TLC checks the design invariants of MailboxSync.tla exhaustively for 2 sessions and bounded histories; seeded TLC behaviours are replayed command by command on the real server (response sequence and abstract state compared after every step); seeded random programs of 2-3 sessions are interleaved at every lock checkpoint of the real code (IDLE included) and every recorded execution is judged by TLC against Trace_Sync.tla, whose guards are exactly the clauses of the property (EXPUNGE in range, none during non-UID FETCH/STORE/SEARCH, EXISTS never shrinks, FETCH/SEARCH labels, client view = server view at command start and after each tagged response).',
   level_note='Trusted: TLC, the strict response parser, the glass-box read of SelectedMailbox.messages._sorted. Lock acquisitions are treated as possible suspension points. Dict backend only in this check; maildir is not covered yet.',
   design_ref='DESIGN.md section 7 C01'),
 'C02': dict(
   technique='same campaign as C01; the observer clause decided is convergence: after NOOP at a quiescent point the shadow client (UIDs and flags built only from the bytes received plus its own STORE.SILENT assumptions) equals the store',
   level_text='Design: TLC checks ConvergedUids/ConvergedFlags on MailboxSync.tla (the change log is modelled exactly as one latest record per UID). Code: every replayed TLC behaviour and every random checkpoint-interleaved execution ends with NOOP on each session at quiescence and a probe of the store; TLC validates C02_ConvergedUids / C02_ConvergedFlags on each recorded execution.',
   level_note='Trusted: TLC, strict response parser, glass-box read of MailboxData._messages as ground truth. \\Recent is excluded from the flag comparison (session flag: C17). Dict backend only.',
   design_ref='DESIGN.md section 7 C02'),
 'C03': dict(
   technique='MIME line splitting / header-body split / raw slicing transcribed into TLA+ over byte classes and over line tokens (WireMime.tla, WireMimeLines.tla); TLC enumerates every bounded string and checks the identity / slice / length laws; every enumerated string is concretised and pushed through MessageContent.parse and end to end through APPEND / FETCH / COPY / MOVE on dict and maildir',
   level_text='TLC enumerates every string over the byte classes the code distinguishes up to length 6 (7 in thorough) and every message of up to 4-6 line tokens (multipart headers, folded lines, blank and whitespace-only lines, boundaries, nested parts) and checks Raw(b) = b, Header(b) + Body(b) = b, sizes and part sizes on the model; each state is concretised twice and executed: direct parse level, then APPEND as {n+} / {n} / ~{n+}, FETCH RFC822.SIZE BODY[] RFC822 BODY[HEADER] BODY[TEXT] BODYSTRUCTURE, every BODY[]<o.n> with o, n <= len+1, BODY[p] and BODY[p.MIME] for each announced part, the same after COPY and MOVE; the reference is identity, slice and length. A failure is excused only if the as-is model names a deviation for exactly that input and the server returned exactly the model\'s prediction.',
   level_note='Exhaustive for small scopes only: lengths up to 64 KiB and deep MIME nesting are sampled (60 long messages in thorough). The byte-class abstraction is read off the code\'s character tests. Open known findings: get_raw on an empty line group, BODYSTRUCTURE size includes the header (pinned by a repo test), maildir re-serialises through the email package, maildir COPY loses content.',
   design_ref='DESIGN.md section 7 C03'),
 'C04': dict(
   technique='random checkpoint-interleaved histories of APPEND/COPY/MOVE/EXPUNGE/RENAME/CREATE/DELETE/STATUS/SELECT by 2-3 sessions on the real server, arrival instants and content ids read from the store, validated by TLC against the UID observer spec Trace_Uids.tla; MailboxSync.tla behaviours replayed with maxuid compared',
   level_text='TLC judges every recorded execution against Trace_Uids.tla: each UID given out in a mailbox identity exceeds every UID ever given out there (also after expunging the highest), UIDNEXT from SELECT/EXAMINE/STATUS exceeds every UID existing at command start and is never above a UID assigned later, APPENDUID names the right UIDVALIDITY and exactly the UIDs under which that command\'s messages became visible, COPYUID pairs source and destination UIDs of identical content in order. Histories include RENAME (INBOX too), DELETE/CREATE of destinations, MOVE/COPY to self, concurrent appenders at every lock checkpoint.',
   level_note='Mailbox identity is the backend object behind a name (glass box). UIDVALIDITY freshness of a re-created name is assumed (16 random bits per second). Dict backend only so far: the maildir part (uidlist persistence across crash/restart) is not covered by this check yet.',
   design_ref='DESIGN.md section 7 C04'),
 'C05': dict(
   technique='RFC 3501 section 3 connection automaton in TLA+ (Conn.tla) checked by TLC; every (state, input) pair of its graph plus seeded sequences executed on the real server with probe commands that reveal the state and a store snapshot before/after each input',
   level_text='TLC checks the automaton\'s own clauses (refused command has no effect, failed SELECT deselects, CLOSE always OK and deselects, LOGOUT = BYE then OK) on every generated step and dumps the complete graph (92 state cores x 86 inputs). The harness drives the real server to every state by a shortest path, sends every input, compares the response class and the state reached (identified by probe sequences: LIST of a per-user marker mailbox, CAPABILITY, FETCH fingerprint, STORE probe for rw/ro) with the model, and compares a full snapshot of the store before/after every refused command; plus length-2 sequences, login + 3 random inputs, TLC -simulate behaviours and seeded walks up to 40 inputs, and the consecutive-BAD limit.',
   level_note='Complete transition cover + state identification; complete under the usual assumption that the implementation has no more relevant states than the model. Where RFC 3501 leaves latitude between NO and BAD the model allows both. Dict backend.',
   design_ref='DESIGN.md section 7 C05'),
 'C06': dict(
   technique='token-level enumeration of command lines and stored messages by TLC (CmdTokens.tla), each concretised and sent to the real IMAP / ManageSieve server in every connection state under a watchdog; every connection transcript validated by TLC against the response-obligation observer Trace_Total.tla',
   level_text='TLC enumerates every line of command word + <= 2 argument tokens over 40 token kinds (legal spellings, truncated and malformed ones, hostile bytes: unterminated quotes/literals/shift sequences, oversized and negative literal counts, deep nesting, 8-bit, NUL, bad UTF-8, bare LF, glued tokens, 30 kB tokens) - 47,589 IMAP and 6,315 ManageSieve lines - and every message of <= 3 line tokens over 23 kinds (12,719); each IMAP line is sent in the not-authenticated, authenticated and selected state, each sieve line before and after authentication, each message is appended and then fetched with 28 FETCH attributes and searched with 19 SEARCH programs; plus connections that repeat an erroneous line 7 times. Each execution runs under a SIGALRM watchdog and is followed by NOOP on a second connection. TLC checks on every transcript: each line answered by exactly one tagged completion / continuation request / BYE-then-close, no BYE [SERVERBUG], no close without BYE, connection task never dies with an exception, no hang, others still served. Quick tier: seeded sample (2,200 + 500 lines, 60 messages); thorough: all.',
   level_note='The input quantifier is covered at TOKEN level only: arbitrary and mutated raw byte strings up to 64 KiB are not enumerable by a TLA+ model and no byte-level fuzzer is added (different technique). No prediction of WHICH completion is given. Dict backend (maildir for a slice of the message half in thorough).',
   design_ref='DESIGN.md section 7 C06'),
 'C07': dict(
   technique='serialisation decision procedure transcribed into TLA+ (WireResp.tla) and checked by TLC; every enumerated value pushed through the real serialisers and through the echo paths of the real server, all output parsed by a strict independent response grammar; plus clause C07_WellFormed of Trace_Total.tla on every transcript of the C06 token campaign',
   level_text='TLC enumerates every value over the byte classes {CH SP DQ BS CR LF NUL HI} up to length 4, short and long (9,362 states), and checks that the chosen wire form parses back to the value under the grammar\'s quoted-string acceptor. Each value is concretised and (i) serialised by the real String.build / AString, (ii) used as mailbox name in CREATE/LIST/LSUB/SUBSCRIBE/STATUS/SELECT/DELETE and in ten header and MIME-parameter slots echoed by ENVELOPE, BODYSTRUCTURE, BODY, HEADER.FIELDS and SEARCH, on dict and maildir, plus MIME nesting shapes (depth 1-6, empty multiparts, empty message/rfc822); (iii) the strict parser is on the path of all ~7,600 connection transcripts of the C06 campaign (token lines in three states, stored messages x 28 FETCH attributes) and a malformed byte is clause C07_WellFormed of the observer spec.',
   level_note='Oracle: harness/respparse.py, written from RFC 3501 section 9 (+ LITERAL+, UIDPLUS, MOVE, BINARY, OBJECTID, ID), not pymap\'s own parser; structural checks of ENVELOPE and BODYSTRUCTURE included. NUL inside a (non-quoted) literal is not flagged: the property forbids it in quoted strings only and a verbatim store (C03) has no other way to send it. IMAP listener only. One open known finding (empty multipart).',
   design_ref='DESIGN.md section 7 C07'),
 'C08': dict(
   technique='mailbox-name -> path computation of both maildir layouts transcribed into TLA+ (WirePath.tla) with kernel resolution of "", ".", ".."; TLC enumerates every bounded name and checks confinement; every enumerated name is sent in all 16 mailbox-argument slots on real maildir stores with the os layer wrapped to record every path touched, plus a two-user dict model (WirePathUsers.tla)',
   level_text='TLC enumerates all names over {letter, ".", delimiter, non-ASCII, NUL} up to length 4 (6-7 in thorough: 195k states) for both layouts and computes, per command slot, the zones a name may touch; each name is concretised (existing / fresh / 300-char / non-ASCII / other user\'s name / NUL / INBOX variants) and sent by user1 as a literal in SELECT EXAMINE CREATE DELETE RENAME-from/-to SUBSCRIBE UNSUBSCRIBE STATUS APPEND COPY MOVE LIST-ref/-pattern LSUB-ref/-pattern on stores with two users; os.* / open / shutil.rmtree / NamedTemporaryFile are wrapped for the duration of the command, every touched path is resolved and compared with the allowed zones, and user2\'s tree, the credential files and the base directory are hashed before/after. Dict backend: user2\'s dump must be byte-identical.',
   level_note='Every experiment runs inside a mkdtemp() scratch base; the wrappers refuse any destructive call that resolves outside it. Reads of the shared credential files during login and the system temp dir (C15 matter) are not C08 violations.',
   design_ref='DESIGN.md section 7 C08'),
 'C09': dict(
   technique='authentication part of Conn.tla (IMAP and ManageSieve instances) checked by TLC; every (state, input) pair over credential classes x mechanisms x TLS/peer configurations executed on the real server, identity probed by per-user marker mailbox / script',
   level_text='TLC checks on every generated step that auth changes only through an exchange whose credentials verify for an existing user and (authzid = authcid or admin role), that LOGIN is refused while LOGINDISABLED is advertised, and that failed, cancelled, malformed, empty or oversized exchanges leave auth unchanged. Every (state, input) pair of the IMAP (19 x 72) and ManageSieve (19 x 90) graphs is executed on the real server (local and remote peer, TLS required or not, before/after STARTTLS), with three provisioned users (two ordinary, one admin); after each input the identity is probed through marker mailboxes / LISTSCRIPTS; plus seeded sequences of failed and successful attempts.',
   level_note='Trusted: TLC, the probes. Fake start_tls (no real TLS). Mechanisms: those SASLAuth.defaults() offers here (PLAIN, LOGIN). Dict backend (maildir Login differs only in where users are stored; not exercised).',
   design_ref='DESIGN.md section 7 C09'),
 'C11': dict(
   technique='RFC 3501 namespace reference model in TLA+ (Namespace.tla, recursive wildcard matcher, latitude as sets of allowed outcomes) checked by TLC; edge cover of its state graphs and seeded -simulate behaviours replayed on the real server with LIST/LSUB/STATUS/identity probes after every step; disagreeing executions judged by TLC against Trace_Namespace.tla',
   level_text='TLC checks the model\'s own sanity (INBOX always exists and is never replaced, failing commands change nothing, RENAME preserves identities) and enumerates, for bounded names over an abstract alphabet (letters, delimiter, wildcards, INBOX case variants), every <reference, pattern, name-set> for the matcher part (100 names x 219 reference/pattern pairs) and all short programs of CREATE/DELETE/RENAME/SUBSCRIBE/UNSUBSCRIBE/LIST/LSUB/STATUS/APPEND; an edge cover is replayed on fresh real servers comparing after EVERY command the tagged result, LIST "" *, LSUB "" *, STATUS of every name, UIDVALIDITY/UIDNEXT/UIDs/bodies carried through RENAME. Names are sent in 7 concretisations (plain, case-only difference, space and quote, backslash, &, non-ASCII, mixed) and 3 spellings; modified UTF-7 is encoded/decoded by the check itself.',
   level_note='Latitude of RFC 3501 (implied parents, CREATE of parents, SUBSCRIBE of missing names, reference handling, INBOX case) is modelled as allowed outcomes, so the check never demands more than the property states. Dict backend only; maildir layouts are not covered yet.',
   design_ref='DESIGN.md section 7 C11'),
 'C12': dict(
   technique='TLC checks the action property ReadOnlyInert on MailboxSync.tla; random programs of message commands issued inside a read-only selection on the real server (checkpoint-interleaved with observing sessions), glass-box dump after every tagged response, validated by TLC against the observer spec Trace_RO.tla',
   level_text='Design: on MailboxSync.tla TLC checks that no step of a session with a read-only selection changes the store. Code: one session EXAMINEs INBOX or SELECTs a backend-read-only mailbox and issues seeded random programs of every message command and UID variant (STORE incl. \\Recent, \\Seen-setting FETCH, EXPUNGE, UID EXPUNGE, COPY, MOVE, SEARCH, NOOP, CHECK, CLOSE) and APPEND/COPY/MOVE into the read-only mailbox, interleaved at every lock checkpoint with 0-2 observing sessions; after every tagged response a dump (UIDs, permanent flags, stored recent bits) is logged; TLC checks on each recorded execution that every dump equals the baseline, that STORE/EXPUNGE/deliveries into the read-only mailbox answer NO, and that CLOSE answers OK and deselects.',
   level_note='Trusted: TLC, strict response parser, glass-box dump of MailboxData._messages (incl. Message.recent = what the next read-write session is given). Other sessions only observe, as the property says. APPEND/COPY by the examining session into the examined mailbox are ordinary deliveries (covered by C17 for the \\Recent clause). Dict backend.',
   design_ref='DESIGN.md section 7 C12'),
 'C13': dict(
   technique='reference SEARCH evaluator written in TLA+ (Search.tla, recursive Eval over key trees) checked by TLC; the <view, program, allowed answers> triples TLC enumerates are replayed as SEARCH and UID SEARCH on the real server, including views with hidden expunged messages',
   level_text='TLC checks algebraic sanity of the evaluator itself (NOT NOT k = k, OR a b = NOT(NOT a AND NOT b), UID result = sequence result mapped through the view) and enumerates mailboxes of <= 3 abstract messages (flags, size class, internal/sent date indices, header and body tokens) x key trees of depth <= 2 over every supported key; each triple is concretised (real messages with those flags, sizes, dates at day boundaries in non-UTC zones, headers) and run as SEARCH and UID SEARCH; the id list must be one of the answers Eval allows. Logically equivalent programs are compared too. About 45k executions in the quick tier.',
   level_note='Where RFC 3501 is ambiguous (date keys and time zones, expunged-but-unannounced messages under RFC 2180) the model allows both answers. Dict backend. Three open known findings (BODY matches headers, NOT NOT refused, sequence set read as UIDs in UID SEARCH).',
   design_ref='DESIGN.md section 7 C13'),
 'C14': dict(
   technique='fault injection at every parking point of the real execution of MOVE/COPY/multi-APPEND/EXPUNGE (task cancellation, disconnect, exception from that storage call) with a second session, store logged after every driver step, validated by TLC against the conservation observer spec Trace_Conserve.tla',
   level_text='For each seeded command instance the harness first measures the parking points of its real execution (lock checkpoints) and then repeats the run once per point and fault kind, with a second session\'s command at a seeded placement; the content of all mailboxes is logged after EVERY driver step, so the invariant is evaluated at every instant between two critical sections, not only at the end. TLC checks: no content id ever vanishes (except \\Deleted messages while an EXPUNGE/CLOSE is in flight), a MOVE answered OK left each message exactly in the destination under the COPYUID UID, a multi-APPEND that did not end OK left nothing, a command answered NO/BAD left everything unchanged. Open known findings are tolerated INSIDE the observer (named deviation) so the remaining clauses are still checked on those traces.',
   level_note='Dict backend; lock acquisitions are possible suspension points (both open findings need that or a storage error). Process kill and os-level faults belong to the maildir backend and are not covered yet. The second session does not expunge or delete.',
   design_ref='DESIGN.md section 7 C14'),
 'C15': dict(
   technique='maildir store at filesystem-operation granularity in TLA+ (MaildirStore.tla, Crash in every state, Restart = reset) checked by TLC; for every short history the real op trace is recorded in a child process and one child is killed before EVERY operation, a new backend on the crashed directory dumps everything, and TLC validates ops + acks + dump against Trace_Maildir.tla',
   level_text='TLC checks AckedSurvive, ControlFilesReadable, NoUidReuse, acked flags / subscriptions / creations persist after Crash + Restart for 2 folders, <= 3 messages, histories of 3-4 operations (up to 2.9 M states in thorough); the measured op traces of the real code are compared with the model\'s programs command by command. Code: 24 histories (quick) / 206 x 4 configurations (thorough: both layouts x temp dir on the same / another filesystem) with every prefix of the op trace as crash point (os._exit in a forked child before operation k), about 1,900 / 36,000 crash points; the restarted server\'s SELECT/UID FETCH/LIST/LSUB/STATUS dump, the acknowledgement log and the op prefix form one trace judged by TLC. Carries the maildir half of C04 (no UID reuse across restart).',
   level_note='Crash = process kill; no power-loss reordering (fsync out of scope). Leftover lock files are aged past their 600 s expiry before the post-restart dump (the property does not say "immediately"); counted in the evidence. Open known findings tolerated inside the observer: EXDEV with the temp dir on another filesystem, COPY loses content, MOVE-back duplicate, half-made maildir after a kill between the mkdirs.',
   design_ref='DESIGN.md section 7 C15'),
 'C16': dict(
   technique='random checkpoint-interleaved executions with idling sessions on slow (drain-gated) connections on the real server, run until no task is runnable, validated by TLC against the observer spec Trace_Sync.tla (IdleCheck / IdleEnd clauses); MailboxSync.tla behaviours replayed as in C01',
   level_text='Seeded schedules place bursts of APPEND/STORE/EXPUNGE/COPY/MOVE by 1-2 writers at every parking point of 1-2 idling sessions, including while the idler is blocked in drain() writing a previous notification; after the burst the loop runs until nothing is runnable and TLC checks on the recorded execution that every change made since "+ idling" (message added, removed, flags changed) has reached the idling client with no further stimulus, that pushed data obeys the C01 clauses, that DONE ends IDLE with OK and anything else with BAD.',
   level_note='Safety encoding of the liveness property (no-task-runnable in virtual time = "finitely many scheduler steps, no later activity"). Trusted: TLC, strict response parser, the driver-owned loop. Dict backend only; the maildir polling idle loop is not covered yet.',
   design_ref='DESIGN.md section 7 C16'),
 'C17': dict(
   technique='random checkpoint-interleaved histories of deliveries (APPEND/COPY/MOVE, also with \\Recent in the flag list) with 2-3 sessions selecting, examining, closing and reselecting on the real server, validated by TLC against the \\Recent observer spec Trace_Recent.tla; MailboxSync.tla (RecentOnce invariant) checked by TLC and its behaviours replayed',
   level_text='Design: TLC checks RecentOnce on MailboxSync.tla (a message\'s \\Recent lives in at most one place: the stored bit or one read-write selection). Code: every recorded execution is judged by TLC against Trace_Recent.tla: at most one read-write selection is ever shown \\Recent on a message; a message that arrived while no read-write selection existed is shown \\Recent to the first read-write selection made afterwards (read-only ones do not consume it); the RECENT count given agrees with the flags seen after a full FETCH; FETCH data received during the session\'s own STORE never changes \\Recent. Arrival time is taken from the store (glass box) so that the order of arrival and selection is exact; where a SELECT is in flight at arrival nothing is demanded.',
   level_note='Trusted: TLC, strict response parser, glass-box read of the store for arrival instants. A selection = one SELECT/EXAMINE until the next SELECT/CLOSE/logout. Dict backend only; maildir (claim_recent generator defect known from reading) not covered yet. One open known finding (StaleRecentPick) needs a lock acquisition to suspend.',
   design_ref='DESIGN.md section 7 C17'),
 'C18': dict(
   technique='string / modified-UTF-7 / sequence-set / flag / date codecs transcribed into TLA+ (WireString.tla, WireUtf7.tla, WireUtf7Dec.tla, WireSeqSet.tla) with the spelling, re-serialisation and round-trip laws as invariants (decoder termination as a liveness property); every enumerated value executed on the real parsers and end to end as sibling commands in every spelling',
   level_text='TLC enumerates every value over the byte classes of the string codecs up to length 4 (5 in thorough), its legal spellings (atom / quoted / {n} / {n+} / ~{n+}) and three suffixes and checks that each parses to the value consuming exactly its own bytes and that bytes(parse(x)) parses again to the same value; every modified-UTF-7 name over {CH & - , U CTL} round-trips; sequence sets, flags and dates round-trip. Each state is executed on the real parsers; six command templates (CREATE, STATUS+SELECT, LOGIN user / password, SEARCH, FETCH HEADER.FIELDS) are sent once per spelling (synchronising literals through the real continuation loop, random letter case of the command word) to fresh identical servers and the responses compared; LIST/STATUS echo is decoded with an independent decoder; the decoder runs on every token string under a CPU-time watchdog.',
   level_note='Small-scope exhaustive; values longer than the bounds are sampled. Open known findings (small repairs proposed): stray byte in QuotedString._raw, HEADER.FIELDS spelling, "}" in atoms, LITERAL+ tail reframed, years below 1000, 4096-byte literal limit.',
   design_ref='DESIGN.md section 7 C18'),
 'C19': dict(
   technique='ManageSieve reference model in TLA+ (Sieve.tla: gate + per-user name->bytes map with active name) checked by TLC; every edge of its state graph and seeded -simulate behaviours replayed on the real ManageSieve listener with response, LISTSCRIPTS/GETSCRIPT probes of both users and authentication state compared after every step',
   level_text='TLC checks the model\'s invariants (at most one active, active is stored, users isolated, no effect before authentication, PUT then GET, RENAME keeps content and active status, active not deletable) and dumps the graph; every edge (about 45k after pruning RFC latitude the server does not take) is replayed on the real server with three connections and two probe connections, comparing after EVERY step the parsed response, both users\' script maps and the authentication state; plus 160 (quick) / 8000 (thorough) simulated behaviours of the full scope and a byte sweep over 10 name families and 13 content families in quoted and literal spellings.',
   level_note='Own strict RFC 5804 response parser. Latitude (response codes, whether a non-compiling script is stored, foreign authzid) is modelled as sets of allowed results; the alternative the server takes is measured and then held. Dict backend filter set.',
   design_ref='DESIGN.md section 7 C19'),
 'C20': dict(
   technique='TLA+ model of asyncio.Lock + the read-write lock checked by TLC; every edge of the state graph replayed on the real lock; recorded executions validated by TLC trace specs',
   level_text='TLC explores every interleaving and one cancellation at any step for 3 tasks x programs of <=2 acquisitions (exclusion, counter exactness, clean at end, deadlock freedom, progress under fairness); every edge of that graph is executed on the real lock object with the full abstract state compared after each step, and every recorded execution (replays + seeded random walks) is judged by TLC against the observer spec whose guards are the clauses of the property.',
   level_note='Trusted: TLC; the model of CPython 3.12 asyncio.Lock (bound to the real object by the step-wise state comparison); tasks switch only at suspensions. The threading variant of the lock is not exercised. FileLock: FileLock.tla checked for asyncio tasks (stat/unlink/create atomic) with a stale lock file at start, one fault (cancellation or exception inside the section) and retry exhaustion; its graph edges and seeded walks run on real FileLock objects on a scratch file with virtual time. Assumes holders do not outlive the expiration; the multi-PROCESS configuration (FileLock_procs.cfg), in which TLC finds an expired-lock unlink race, is outside the property (tasks) and documented only.',
   design_ref='DESIGN.md section 7 C20'),
}

NA_REASON = 'check not built yet in this round (planned: see DESIGN.md section 13); nothing is claimed'

def main():
    base = json.load(open('/root/.vp/BASELINE.json'))
    checks = []
    for pid in ALL:
        c = CHECKS.get(pid)
        if not c:
            continue
        checks.append({
            'property_id': pid,
            'quick_cmd': f'./check {pid} --tier quick',
            'thorough_cmd': f'./check {pid} --tier thorough',
            'evidence_file': f'/verif/evidence/{pid}.json',
            'replay_cmd_template': f'./check {pid} --replay {{path}}',
            'engine': 'tlc+harness',
            'level_claimed': {'category': c.get('category', 'model_checking'),
                              'text': c['level_text'],
                              'design_ref': c['design_ref']},
            'level_note': c['level_note'],
            'technique': c['technique'],
        })
    hooks = json.load(open(os.path.join(ROOT, 'tools', 'hooks.json')))
    man = {
        'version': 1,
        'setup_cmd': './setup.sh',
        'hooks': {
            'guard': 'ICGOOD_PYMAP_VERIF',
            'enable': 'no build step: checks run /venv/bin/python with PYTHONPATH=/repo and ICGOOD_PYMAP_VERIF=1 (set by ./check)',
            'baseline_off_cmd': base['cmd'].replace(' --junitxml=<file>', ''),
            'source_commits': hooks['source_commits'],
            'add_only': True,
        },
        'engines': [
            {'name': 'tlc', 'path': '/verif/spec', 'serves_properties': sorted(CHECKS),
             'kind_free_text': 'TLA+ specifications checked with TLC 1.8 (exhaustive, -simulate, -dump state graphs, batch trace validation)'},
            {'name': 'harness', 'path': '/verif/harness', 'serves_properties': sorted(CHECKS),
             'kind_free_text': 'deterministic driver-owned asyncio loop, checkpoint subsystem, in-process pymap servers, strict response parser, replay of TLC behaviours and trace recording'},
        ],
        'checks': checks,
        'notes': 'Model-based verification with explicit TLA+ specifications; see DESIGN.md. known_findings.json lists open and fixed findings.',
        'not_applicable': [{'property_id': p, 'reason': NA.get(p, NA_REASON)}
                           for p in ALL if p not in CHECKS],
    }
    json.dump(man, open(os.path.join(ROOT, 'MANIFEST.json'), 'w'), indent=1)
    print('checks:', len(checks), 'not_applicable:', len(man['not_applicable']))

NA = {}
if __name__ == '__main__':
    main()
