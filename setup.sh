#!/bin/sh
# offline setup: parse every specification, byte-compile the harness
set -e
cd "$(dirname "$0")"
export PYTHONDONTWRITEBYTECODE=1
fail=0
for f in spec/*.tla; do
  out=$(cd spec && tla-sany "$(basename "$f")" 2>&1) || { echo "SANY failed: $f"; echo "$out" | tail -5; fail=1; }
done
/venv/bin/python - <<'PY'
import sys, pathlib, py_compile
bad = 0
for p in pathlib.Path('harness').rglob('*.py'):
    try:
        compile(p.read_text(), str(p), 'exec')
    except SyntaxError as e:
        print('syntax error', p, e); bad = 1
sys.exit(bad)
PY
mkdir -p evidence replays
exit $fail
