\* the layouts as they were BEFORE the repair (name parts joined unchecked),
\* no deviation excused: Confined is EXPECTED to fail (fixed entries of
\* known/C08.json); shows that the invariant can tell the difference
SPECIFICATION Spec
CONSTANTS
  MaxLen = 4
  ExtraNames <- DeepNames
  RejectSpecialParts = FALSE
  Deviations = {}
INVARIANT TypeOK
INVARIANT Confined
CHECK_DEADLOCK FALSE
