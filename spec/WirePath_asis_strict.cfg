\* the tree as it is, no deviation excused: Confined is EXPECTED to fail
\* (the layouts join the name parts unchecked - the design admits escape)
SPECIFICATION Spec
CONSTANTS
  MaxLen = 4
  ExtraNames <- DeepNames
  RejectSpecialParts = FALSE
  Deviations = {}
INVARIANT TypeOK
INVARIANT Confined
CHECK_DEADLOCK FALSE
