SPECIFICATION Spec
CONSTANTS
  Task = {t1, t2, t3, t4}
  MaxOps = 2
  MaxCancel = 2
  Variant = "fixed"
INVARIANT TypeOK
INVARIANT Excl
INVARIANT InsideHolds
INVARIANT CounterExact
INVARIANT CleanAtEnd
PROPERTY Progress
