\* Ideal: with the candidate repair (a name with an empty, '.', '..' or NUL
\* part is refused before a path is built) Confined holds with no deviation
SPECIFICATION Spec
CONSTANTS
  MaxLen = 5
  ExtraNames <- DeepNames
  RejectSpecialParts = TRUE
  Deviations = {}
INVARIANT TypeOK
INVARIANT Confined
INVARIANT PPOneComponent
INVARIANT AllowedAreZones
CHECK_DEADLOCK FALSE
