\* the repaired design one length further than WirePath_asis.cfg: Confined
\* holds with no deviation
SPECIFICATION Spec
CONSTANTS
  MaxLen = 5
  ExtraNames <- DeepNames
  RejectSpecialParts = TRUE
  Deviations = {}
INVARIANT TypeOK
INVARIANT Confined
INVARIANT PPOneComponent
INVARIANT AllowedAreZones
CHECK_DEADLOCK FALSE
