\* no deviations: Confined is EXPECTED to fail while the layouts join the
\* parts unchecked (the design admits escape); it must pass once '.', '..'
\* and empty components are rejected
SPECIFICATION Spec
CONSTANTS
  MaxLen = 4
  ExtraNames <- DeepNames
  Deviations = {}
INVARIANT TypeOK
INVARIANT Confined
CHECK_DEADLOCK FALSE
