------------------------------ MODULE FileLock ------------------------------
(***************************************************************************)
(* pymap.concurrent.FileLock: the presence of a lock file is the lock.     *)
(*   _check_lock: stat; absent -> go; older than the expiration -> unlink, *)
(*                go; else wait                                            *)
(*   _try_lock:   open(path, 'x') (atomic create-if-absent)                *)
(*   write_lock:  check and try -> section -> unlink (finally); otherwise  *)
(*                sleep through the delay sequence, try after each sleep,  *)
(*                TimeoutError when exhausted                              *)
(*   read_lock:   check -> section (creates nothing); otherwise sleep and  *)
(*                look for the file to be gone                             *)
(*                                                                         *)
(* Atomic = TRUE : contenders are asyncio tasks of one process - there is  *)
(*   no suspension between stat, unlink and create (one action).           *)
(* Atomic = FALSE: contenders are processes; every system call is a step.  *)
(*   TLC then finds the race  stat(expired) stat(expired) unlink create    *)
(*   unlink create  in which the second contender removes the first one's  *)
(*   FRESH lock: two writers inside.  It needs a stale lock file left by a *)
(*   killed process and two processes; the property (C20) quantifies over  *)
(*   tasks, so this configuration documents the observation and is not     *)
(*   part of the claim.                                                    *)
(* Assumption of the claim: no holder outlives the expiration (600 s).     *)
(***************************************************************************)
EXTENDS Naturals, Sequences, FiniteSets, TLC

CONSTANTS Task, MaxOps, MaxRetry, MaxFault, Atomic, StaleAtStart

VARIABLES file,     \* "none" | "fresh" | "stale"  (the lock file: absent, present, present and expired)
          owner,    \* who created the file that is there now ("nobody" for the stale one / none)
          pc,       \* idle | chk (Atomic = FALSE: saw 'expired', about to unlink) | try | sleep
                    \* | inW | inR | done | dead | timeout
          saw,      \* Atomic = FALSE: result of the stat
          left, tries, nfault
vars == <<file, owner, pc, saw, left, tries, nfault>>

ProgSet == UNION {[1..n -> {"r", "w"}] : n \in 0..MaxOps}

Init == /\ file = IF StaleAtStart THEN "stale" ELSE "none"
        /\ owner = "nobody"
        /\ left \in [Task -> ProgSet]
        /\ pc = [t \in Task |-> IF left[t] = <<>> THEN "done" ELSE "idle"]
        /\ saw = [t \in Task |-> "none"]
        /\ tries = [t \in Task |-> 0]
        /\ nfault = 0

Op(t) == Head(left[t])
NextPc(rest) == IF rest = <<>> THEN "done" ELSE "idle"
Finish(t, how) == /\ left' = [left EXCEPT ![t] = IF how = "ok" THEN Tail(@) ELSE <<>>]
                  /\ pc' = [pc EXCEPT ![t] = IF how = "ok" THEN NextPc(Tail(left[t])) ELSE how]

\* ------------------------------------------------------------ Atomic = TRUE
\* first attempt of an acquisition, in one step
BeginA(t) ==
  /\ Atomic /\ pc[t] = "idle" /\ left[t] # <<>>
  /\ UNCHANGED <<saw, nfault, left>>
  /\ IF Op(t) = "w"
     THEN IF file \in {"none", "stale"}          \* check passes (stale is unlinked), create
          THEN /\ file' = "fresh" /\ owner' = t /\ pc' = [pc EXCEPT ![t] = "inW"] /\ UNCHANGED tries
          ELSE /\ pc' = [pc EXCEPT ![t] = "sleep"] /\ tries' = [tries EXCEPT ![t] = 0]
               /\ UNCHANGED <<file, owner>>
     ELSE IF file \in {"none", "stale"}
          THEN /\ file' = "none" /\ owner' = "nobody"   \* a stale file is unlinked by the check
               /\ pc' = [pc EXCEPT ![t] = "inR"] /\ UNCHANGED tries
          ELSE /\ pc' = [pc EXCEPT ![t] = "sleep"] /\ tries' = [tries EXCEPT ![t] = 0]
               /\ UNCHANGED <<file, owner>>

\* a sleep ends: retry (writers try to create; readers look whether the file is gone)
Wake(t) ==
  /\ pc[t] = "sleep"
  /\ UNCHANGED <<saw, nfault>>
  /\ IF Op(t) = "w"
     THEN IF file = "none"
          THEN /\ file' = "fresh" /\ owner' = t /\ pc' = [pc EXCEPT ![t] = "inW"]
               /\ UNCHANGED <<tries, left>>
          ELSE IF tries[t] + 1 >= MaxRetry
               THEN Finish(t, "timeout") /\ UNCHANGED <<file, owner, tries>>
               ELSE tries' = [tries EXCEPT ![t] = @ + 1] /\ UNCHANGED <<file, owner, pc, left>>
     ELSE IF file = "none"
          THEN pc' = [pc EXCEPT ![t] = "inR"] /\ UNCHANGED <<file, owner, tries, left>>
          ELSE IF tries[t] + 1 >= MaxRetry
               THEN Finish(t, "timeout") /\ UNCHANGED <<file, owner, tries>>
               ELSE tries' = [tries EXCEPT ![t] = @ + 1] /\ UNCHANGED <<file, owner, pc, left>>

\* ----------------------------------------------------------- Atomic = FALSE
Stat(t) ==
  /\ ~Atomic /\ pc[t] = "idle" /\ left[t] # <<>>
  /\ saw' = [saw EXCEPT ![t] = file]
  /\ pc' = [pc EXCEPT ![t] = IF file = "fresh" THEN "sleep" ELSE IF file = "stale" THEN "chk" ELSE "try"]
  /\ tries' = [tries EXCEPT ![t] = 0]
  /\ UNCHANGED <<file, owner, left, nfault>>
UnlinkExpired(t) ==      \* unlinks WHATEVER is there now
  /\ ~Atomic /\ pc[t] = "chk"
  /\ file' = "none" /\ owner' = "nobody"
  /\ pc' = [pc EXCEPT ![t] = "try"]
  /\ UNCHANGED <<saw, left, tries, nfault>>
Create(t) ==
  /\ ~Atomic /\ pc[t] = "try"
  /\ UNCHANGED <<saw, left, tries, nfault>>
  /\ IF Op(t) = "r" THEN pc' = [pc EXCEPT ![t] = "inR"] /\ UNCHANGED <<file, owner>>
     ELSE IF file = "none"
          THEN file' = "fresh" /\ owner' = t /\ pc' = [pc EXCEPT ![t] = "inW"]
          ELSE pc' = [pc EXCEPT ![t] = "sleep"] /\ UNCHANGED <<file, owner>>

\* ------------------------------------------------------------------- common
\* leave the section: normally, by an exception raised inside it, or by cancellation
\* (finally: _unlock = unlink whatever is there, errors ignored)
Leave(t, how) ==
  /\ pc[t] \in {"inW", "inR"}
  /\ IF pc[t] = "inW" THEN file' = "none" /\ owner' = "nobody" ELSE UNCHANGED <<file, owner>>
  /\ Finish(t, how)
  /\ UNCHANGED <<saw, tries>>
Exit(t) == Leave(t, "ok") /\ UNCHANGED nfault
Fault(t) == /\ nfault < MaxFault /\ nfault' = nfault + 1
            /\ \/ Leave(t, "dead")
               \/ /\ pc[t] \in {"sleep", "idle"} /\ Finish(t, "dead")
                  /\ UNCHANGED <<file, owner, saw, tries>>

AllDone == \A t \in Task : pc[t] \in {"done", "dead", "timeout"}
Terminated == AllDone /\ UNCHANGED vars

Next == \/ \E t \in Task : BeginA(t) \/ Wake(t) \/ Stat(t) \/ UnlinkExpired(t) \/ Create(t)
                            \/ Exit(t) \/ Fault(t)
        \/ Terminated
Spec == Init /\ [][Next]_vars

\* two writers never hold the same file at once
WriterExcl == Cardinality({t \in Task : pc[t] = "inW"}) <= 1
\* the file that is there belongs to the writer inside
FileIsHolders == (\E t \in Task : pc[t] = "inW") => (file = "fresh" /\ pc[owner] = "inW")
\* a granted write lock is always released on exit, including on exceptions
ReleasedAtEnd == AllDone => file # "fresh"
=============================================================================
