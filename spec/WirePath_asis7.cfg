\* the tree under test: _split refuses unsafe mailbox names; nothing is excused
SPECIFICATION Spec
CONSTANTS
  MaxLen = 7
  ExtraNames <- DeepNames
  RejectSpecialParts = TRUE
  Deviations = {}
INVARIANT TypeOK
INVARIANT Confined
INVARIANT AllowedAreZones
INVARIANT PPOneComponent
CHECK_DEADLOCK FALSE
