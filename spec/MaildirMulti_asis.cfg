SPECIFICATION SpecM
CONSTANTS
  Names = {"INBOX", "Box"}
  MaxMsgs = 2
  MaxOps = 2
  MaxSel = 1
  MaxCrashes = 1
  FlagSet = {"S"}
  AppendFlags = {{}}
  Dev = {"MoveKeepsSourceRecord"}
  Tol = {"MoveKeepsSourceRecord"}
  OtherFs = FALSE
  Virgin = FALSE
  Existing = {"Box"}
INVARIANT TypeOK
INVARIANT AppendAllOrNothing
CHECK_DEADLOCK FALSE
