----------------------------- MODULE WireSeqSet -----------------------------
(***************************************************************************)
(* C18: serialise . parse round trips of sequence sets, flags and date-     *)
(* times over enumerated SHAPES.  Kind selects the enumeration.             *)
(*                                                                         *)
(* Kind = "seqset"  parsing/specials/sequenceset.py                          *)
(*   value: 1..MaxElems elements; an element is an index <<i, -1>> or a     *)
(*   range <<i, j>>; an index is a number shape (1 = "1", 2 = "9", 3 = "10",        *)
(*   4 = "4294967295") or 0 = "*".  Ser = __bytes__ (_elem_bytes, ":" ",");  *)
(*   Parse = SequenceSet.parse/_parse_part over tokens N1..N4 STAR COLON     *)
(*   COMMA.  Law: Parse(Ser(v) ++ suffix) = <<v, suffix>>.                   *)
(*                                                                         *)
(* Kind = "flag"    parsing/specials/flag.py                                 *)
(*   wire shape <<bs, case>>: bs = system flag (leading backslash) or        *)
(*   keyword; case in lower/upper/mixed/capital.  Flag._capitalize.          *)
(*   Law: Parse(Ser(Parse(x))) = Parse(x) (idempotent normal form) and a     *)
(*   keyword keeps its case.                                                 *)
(*                                                                         *)
(* Kind = "date"    parsing/specials/datetime_.py                            *)
(*   wire shape [day, year, tz]: day in sp1 (" 1") / z1 ("01") / d2 ("17");  *)
(*   year in y4 (1000..9999) / y3 ("0999": 4 digits, value < 1000);          *)
(*   tz in zero / east / west / negzero.                                     *)
(*   The serialiser of a FRESH value (no cached raw: FETCH INTERNALDATE)     *)
(*   is strftime('%d-%b-%Y %X %z'): day zero-padded, year NOT padded by      *)
(*   glibc (as-is).  Law: Parse(SerFresh(Parse(x))) = Parse(x).              *)
(***************************************************************************)
EXTENDS Integers, Sequences, FiniteSets, TLC

CONSTANTS Kind, MaxElems, Fixed

VARIABLES val, pred

vars == <<val, pred>>

AllDevs == {"DateYearBelow1000"}
DevsNone == {}

---------------------------------------------------------------------------
(* sequence sets *)
Idx == 0..4
Elems == Idx \X ({-1} \cup Idx)      \* <<i, -1>> is the single index i

IdxTok(i) == IF i = 0 THEN "STAR" ELSE
             IF i = 1 THEN "N1" ELSE IF i = 2 THEN "N2" ELSE
             IF i = 3 THEN "N3" ELSE "N4"
TokIdx(t) == IF t = "STAR" THEN 0 ELSE IF t = "N1" THEN 1 ELSE
             IF t = "N2" THEN 2 ELSE IF t = "N3" THEN 3 ELSE 4
IsIdxTok(t) == t \in {"STAR", "N1", "N2", "N3", "N4"}

SerElem(e) == IF e[2] = -1 THEN <<IdxTok(e[1])>>
              ELSE <<IdxTok(e[1]), "COLON", IdxTok(e[2])>>

RECURSIVE SerSet(_)
SerSet(v) == IF Len(v) = 1 THEN SerElem(v[1])
             ELSE SerElem(v[1]) \o <<"COMMA">> \o SerSet(Tail(v))

\* _parse_part: index [":" index]
ParsePart(w) ==
  IF w = <<>> \/ ~IsIdxTok(Head(w)) THEN [ok |-> FALSE, e |-> <<0, -1>>, rest |-> w]
  ELSE IF Len(w) >= 2 /\ w[2] = "COLON" THEN
    IF Len(w) >= 3 /\ IsIdxTok(w[3])
    THEN [ok |-> TRUE, e |-> <<TokIdx(w[1]), TokIdx(w[3])>>, rest |-> SubSeq(w, 4, Len(w))]
    ELSE [ok |-> FALSE, e |-> <<0, -1>>, rest |-> w]
  ELSE [ok |-> TRUE, e |-> <<TokIdx(w[1]), -1>>, rest |-> Tail(w)]

\* SequenceSet.parse: while buf: part; if buf and buf[0] != ',': break; buf = buf[1:]
RECURSIVE ParseSet(_, _)
ParseSet(w, acc) ==
  IF w = <<>> THEN [ok |-> acc # <<>>, v |-> acc, rest |-> <<>>]
  ELSE LET p == ParsePart(w) IN
    IF ~p.ok THEN [ok |-> FALSE, v |-> acc, rest |-> w]
    ELSE IF p.rest # <<>> /\ Head(p.rest) # "COMMA"
         THEN [ok |-> TRUE, v |-> acc \o <<p.e>>, rest |-> p.rest]
         ELSE ParseSet(IF p.rest = <<>> THEN <<>> ELSE Tail(p.rest), acc \o <<p.e>>)

SetSuffixes == {<<>>, <<"SP", "X">>, <<"RP">>}

SeqSetPred(v) ==
  [ser |-> SerSet(v),
   ok |-> \A suf \in SetSuffixes :
            LET r == ParseSet(SerSet(v) \o suf, <<>>)
            IN r.ok /\ r.v = v /\ r.rest = suf]

---------------------------------------------------------------------------
(* flags *)
FlagShapes == {"sys", "kw"} \X {"lower", "upper", "mixed", "capital"}

\* _capitalize: a system flag is backslash + capitalize(); a keyword is kept
NormCase(sh) == IF sh[1] = "sys" THEN <<"sys", "capital">> ELSE sh
FlagPred(sh) == [norm |-> NormCase(sh),
                 ok |-> NormCase(NormCase(sh)) = NormCase(sh)
                        /\ (sh[1] = "kw" => NormCase(sh) = sh)]

---------------------------------------------------------------------------
(* date-times *)
DateShapes == [day : {"sp1", "z1", "d2"}, year : {"y4", "y3"},
               tz : {"zero", "east", "west", "negzero"}]

\* strftime: %d zero-pads; %Y does not pad a year below 1000 (glibc)
FreshDay(d) == IF d = "sp1" THEN "z1" ELSE d
FreshYear(y) == IF y = "y3" /\ "DateYearBelow1000" \notin Fixed THEN "y3short" ELSE y
\* strptime %Y wants four digits
Parses(sh) == sh.year # "y3short"
FreshTz(t) == IF t = "negzero" THEN "zero" ELSE t     \* -0000 and +0000 are one value

DatePred(sh) ==
  LET fresh == [day |-> FreshDay(sh.day), year |-> FreshYear(sh.year), tz |-> FreshTz(sh.tz)]
  IN [fresh |-> fresh, ok |-> Parses(fresh),
      devs |-> IF sh.year = "y3" /\ "DateYearBelow1000" \notin Fixed
               THEN {"DateYearBelow1000"} ELSE {}]

---------------------------------------------------------------------------
Init ==
  CASE Kind = "seqset" -> /\ val \in {<<e>> : e \in Elems}
                          /\ pred = SeqSetPred(val)
    [] Kind = "flag"   -> /\ val \in FlagShapes
                          /\ pred = FlagPred(val)
    [] Kind = "date"   -> /\ val \in DateShapes
                          /\ pred = DatePred(val)

Extend(e) == /\ Kind = "seqset" /\ Len(val) < MaxElems
             /\ val' = val \o <<e>>
             /\ pred' = SeqSetPred(val')

Next == \E e \in Elems : Extend(e)

Spec == Init /\ [][Next]_vars

RoundTrip == pred.ok
OnlyKnown == ~pred.ok => Kind = "date" /\ pred.devs # {}
=============================================================================
