SPECIFICATION Spec
CONSTANTS
  MaxLines = 4
  Prefix <- PrefixNone
  Alphabet <- AlphaAll
  Fixed <- DevsNone
INVARIANT TypeOK
INVARIANT OnlyKnown
INVARIANT KnownDeviates
