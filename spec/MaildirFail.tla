------------------------------ MODULE MaildirFail ------------------------------
(***************************************************************************)
(* C14, maildir: a FAILING SYSTEM CALL instead of a process kill.           *)
(*                                                                          *)
(* For the state on disk "filesystem call k fails and the command is        *)
(* abandoned" is what Crash before call k leaves, and MaildirStore lets     *)
(* Crash happen in every state - nothing to add for that.  What a kill      *)
(* cannot show is the process that LIVES ON: pymap.backend.maildir.io       *)
(* FileLock swallows a failing removal of dovecot-uidlist.lock, the lock    *)
(* file stays, the command goes on with its next calls, and its next        *)
(* acquisition of that folder's lock waits, times out and ends the command  *)
(* with NO [TIMEOUT] - after the message file has been renamed / linked.    *)
(* The same happens when another process takes the lock file between two    *)
(* steps of the command: every step (copy one message, move one message,    *)
(* record it, refresh the selected mailbox) takes and releases the folder   *)
(* lock on its own.                                                         *)
(*                                                                          *)
(*   UnlockFails  the removal of the lock file fails silently (<= MaxFails) *)
(*   LockTimeout  the command in flight needs a lock whose file exists:     *)
(*                it ends with NO (refused), nothing is rolled back         *)
(*                                                                          *)
(* RefusedInert is the clause of the property ("any command that ends in    *)
(* NO or BAD leaves mailbox contents unchanged") on what the folders hold   *)
(* (content id and flags of every live file, i.e. what a server serves      *)
(* after its next reset()).  It is EXPECTED TO FAIL on the tree as it is:   *)
(* the counterexample (MOVE: rename done, destination lock times out) is    *)
(* the open finding MaildirTimeoutAfterEffect that the failing-call family  *)
(* of harness/checks/maildir_crash.py exhibits on the real code; c14.py     *)
(* requires the failure as long as the finding is open.                     *)
(* RefusedConserves is what does hold: no content id a folder held when the *)
(* command began is held by no folder when it has been refused.             *)
(***************************************************************************)
EXTENDS MaildirStore

CONSTANT MaxFails
VARIABLES snap,      \* what every folder held when the command in flight began
          refused,   \* the last command ended with NO [TIMEOUT]
          nfail
varsF == <<vars, snap, refused, nfail>>

Held(f) == {<<x.c, x.fl>> : x \in Live(f)}
HeldAll == [f \in Names |-> Held(f)]

InitF == Init /\ snap = HeldAll /\ refused = FALSE /\ nfail = 0

Begins == cur.op = "none" /\ cur'.op # "none"
Track == /\ snap' = IF Begins THEN HeldAll ELSE snap
         /\ refused' = IF Begins THEN FALSE ELSE refused

UnlockFails ==
  /\ phase = "run" /\ prog # <<>> /\ prog[1].k = "unlock" /\ nfail < MaxFails
  /\ nfail' = nfail + 1
  /\ prog' = Tail(prog)
  /\ UNCHANGED <<dirs, files, ul, lockf, subsf, slock, temp, mem, cur, sel, acked, subsAcked,
                 created, seen, gone, infl, failed, nextKey, nextVal, nmsg, nops, nsel, ncrash,
                 phase, last, snap, refused>>

LockTimeout ==
  /\ phase = "run" /\ prog # <<>> /\ prog[1].k = "lock" /\ lockf[prog[1].f]
  /\ refused' = TRUE
  /\ infl' = cur /\ cur' = NoCmd /\ prog' = <<>> /\ mem' = NoMem /\ temp' = NoTemp
  /\ UNCHANGED <<dirs, files, ul, lockf, subsf, slock, sel, acked, subsAcked, created, seen,
                 gone, failed, nextKey, nextVal, nmsg, nops, nsel, ncrash, phase, last, snap,
                 nfail>>

NextF == \/ Next /\ Track /\ UNCHANGED nfail
         \/ UnlockFails
         \/ LockTimeout
SpecF == InitF /\ [][NextF]_varsF

\* the clause of the property (expected to fail on the tree as it is)
RefusedInert == refused => HeldAll = snap
\* what the tree does guarantee: a refused command loses nothing
RefusedConserves ==
  refused => \A f \in Names : \A x \in snap[f] : \E g \in Names : \E y \in Held(g) : y[1] = x[1]
=============================================================================
