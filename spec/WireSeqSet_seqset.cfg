SPECIFICATION Spec
CONSTANTS
  Kind = "seqset"
  MaxElems = 3
  Fixed <- DevsNone
INVARIANT RoundTrip
