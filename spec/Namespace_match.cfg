\* thorough tier, the matcher
\* {a b / * newline} exist at once (plus each hierarchical one alone);
\* LIST and LSUB for every pattern of length <= 3 over {a b / * %}
SPECIFICATION SpecAsIs
CONSTANTS
  CreateArgs = {}
  NameArgs = {}
  AppendArgs = {}
  SubArgs = {}
  RenameArgs = {}
  ListQ <- MatchFullQ
  LsubQ <- MatchFullQ
  InitSets <- MatchFullInit
  MaxMsgs = 1
  MaxLen = 3
  AllOpen <- AllKnown
  Stores = {"dict", "pp", "fs"}
INVARIANT TypeOK
CHECK_DEADLOCK FALSE
