SPECIFICATION Spec
CONSTANTS
  Kind = "tmpl"
  MaxArgs = 6
INVARIANT TypeOK
CHECK_DEADLOCK FALSE
