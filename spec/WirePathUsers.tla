--------------------------- MODULE WirePathUsers ---------------------------
(***************************************************************************)
(* C08, second clause: "on every backend one user's commands never change  *)
(* what another user observes".  Two (or more) users, each with the        *)
(* observable state of a mail store: which mailboxes exist, which are      *)
(* subscribed, how many messages each holds.  Every namespace / delivery   *)
(* command of user x acts on the store the backend keeps for x             *)
(* (dict: Config.set_cache[identity]; maildir: base_dir/<mailbox_path>).   *)
(*                                                                         *)
(* Isolation: a step taken by x leaves View(y) unchanged for every other   *)
(* user y.  Deviation "SharedSet" (Shared = TRUE) models a backend that    *)
(* hands the same store to every user; WirePathUsers_shared.cfg shows that *)
(* TLC then rejects (this is what the binding must detect on the server:   *)
(* the dump of user2 changes after a command of user1).                    *)
(***************************************************************************)
EXTENDS Naturals, FiniteSets

CONSTANTS Users, BoxNames, MaxMsgs, Shared

VARIABLES stores,   \* store key -> [boxes, subs, msgs]
          actor     \* who took the last step

vars == <<stores, actor>>

AnyUser == CHOOSE u \in Users : TRUE
Key(u)  == IF Shared THEN AnyUser ELSE u
View(u) == stores[Key(u)]

Empty == [boxes |-> {}, subs |-> {}, msgs |-> [n \in BoxNames |-> 0]]

Init == /\ stores = [u \in Users |-> Empty]
        /\ actor = AnyUser

Upd(x, new) == /\ stores' = [stores EXCEPT ![Key(x)] = new]
               /\ actor' = x

Create(x, n) ==
  /\ n \notin View(x).boxes
  /\ Upd(x, [View(x) EXCEPT !.boxes = @ \cup {n}])

Delete(x, n) ==
  /\ n \in View(x).boxes
  /\ Upd(x, [View(x) EXCEPT !.boxes = @ \ {n}, !.msgs[n] = 0])

Rename(x, n, m) ==
  /\ n \in View(x).boxes /\ m \notin View(x).boxes
  /\ Upd(x, [View(x) EXCEPT !.boxes = (@ \ {n}) \cup {m},
                            !.msgs[m] = View(x).msgs[n], !.msgs[n] = 0])

Subscribe(x, n)   == Upd(x, [View(x) EXCEPT !.subs = @ \cup {n}])
Unsubscribe(x, n) == Upd(x, [View(x) EXCEPT !.subs = @ \ {n}])

Deliver(x, n) ==      \* APPEND / COPY / MOVE into n
  /\ n \in View(x).boxes /\ View(x).msgs[n] < MaxMsgs
  /\ Upd(x, [View(x) EXCEPT !.msgs[n] = @ + 1])

Refused(x) == /\ actor' = x /\ UNCHANGED stores   \* NO / BAD: nothing changes

Next == \E x \in Users :
          \/ \E n \in BoxNames :
               Create(x, n) \/ Delete(x, n) \/ Subscribe(x, n)
               \/ Unsubscribe(x, n) \/ Deliver(x, n)
          \/ \E n, m \in BoxNames : Rename(x, n, m)
          \/ Refused(x)

Spec == Init /\ [][Next]_vars

TypeOK == /\ actor \in Users
          /\ \A u \in Users : /\ stores[u].boxes \subseteq BoxNames
                              /\ stores[u].subs \subseteq BoxNames

\* the property
Isolation == [][\A y \in Users : y # actor' => View(y)' = View(y)]_vars
=============================================================================
