SPECIFICATION Spec
CONSTANTS
  Names = {"INBOX", "Box"}
  MaxMsgs = 3
  MaxOps = 5
  MaxSel = 3
  MaxCrashes = 0
  FlagSet = {"S", "T", "F"}
  AppendFlags = {{}, {"S"}, {"T"}}
  Dev = {"MoveKeepsSourceRecord"}
  Tol = {"MoveKeepsSourceRecord"}
  OtherFs = FALSE
  Virgin = FALSE
  Existing = {"Box"}
INVARIANT TypeOK
CHECK_DEADLOCK FALSE
