\* INBOX: case variants, INBOX as hierarchy parent, renaming INBOX
SPECIFICATION SpecAsIs
CONSTANTS
  CreateArgs <- InbCreate
  NameArgs <- InbName
  AppendArgs <- InbAppend
  SubArgs <- InbSub
  RenameArgs <- InbRename
  ListQ <- InbListQ
  LsubQ <- InbLsubQ
  InitSets <- None
  MaxMsgs = 1
  MaxLen = 3
  AllOpen <- AllKnown
  Stores = {"dict", "pp", "fs"}
INVARIANT TypeOK
CHECK_DEADLOCK FALSE
