\* quick exhaustive part: all programs of <= 3 commands over menu "q", every resolution of
\* the latitude points enabled, keyword not permitted (dict, plain maildir).
\* The check generates this text at run time (harness/checks/c10.py cfg_text).
SPECIFICATION Spec
CONSTANTS
  KwPermitted = FALSE
  OorLenient = {"copy", "fetch", "move", "store"}
  OorStrict = {"copy", "fetch", "move", "store"}
  RecLenient = {"append", "store"}
  RecStrict = {"append", "store"}
  AppendKw = {"drop", "keep"}
  Inits = {"std"}
  MaxCmds = 3
  MaxUid = 9
  Profile = "q"
  TwoLevel = FALSE
INVARIANT TypeOK
INVARIANT UidsBelowNext
INVARIANT NoRecentStored
INVARIANT KwOnlyIfAllowed
INVARIANT ContentHasOneDate
PROPERTY UidsAscend
PROPERTY RefusedInert
PROPERTY MoveIsCopyStoreExpunge
PROPERTY ExpungeExact
PROPERTY FetchSeenExact
PROPERTY StoreExact
PROPERTY OtherLeavesSession
CHECK_DEADLOCK FALSE
