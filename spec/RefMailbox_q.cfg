\* quick exhaustive part: all programs of length <= 3 over menu "q", every
\* resolution of the latitude points enabled, keyword not permitted (dict,
\* plain maildir)
SPECIFICATION Spec
CONSTANTS
  KwPermitted = FALSE
  Lat = {"lenient", "strict"}
  AppendKw = {"keep", "drop"}
  Inits = {"std"}
  MaxCmds = 3
  MaxUid = 9
  Profile = "q"
  TwoLevel = FALSE
INVARIANT TypeOK
INVARIANT UidsBelowNext
INVARIANT NoRecentStored
INVARIANT KwOnlyIfAllowed
INVARIANT ContentHasOneDate
PROPERTY UidsAscend
PROPERTY RefusedInert
PROPERTY MoveIsCopyStoreExpunge
PROPERTY ExpungeExact
PROPERTY FetchSeenExact
PROPERTY StoreExact
CHECK_DEADLOCK FALSE
