SPECIFICATION Spec
CONSTANTS
  MaxLen = 4
  Fixed <- DevsNone
INVARIANT TypeOK
INVARIANT OnlyKnown
INVARIANT KnownDeviates
