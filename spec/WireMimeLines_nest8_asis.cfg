SPECIFICATION Spec
CONSTANTS
  MaxLines = 8
  Prefix <- PrefixNest
  Alphabet <- AlphaNest
  Fixed <- DevsNone
INVARIANT TypeOK
INVARIANT OnlyKnown
INVARIANT KnownDeviates
