SPECIFICATION FSpec
CONSTANTS
  Sess = {a, b}
  MaxUid = 3
  InitMsgs = 2
  Flags = {"D"}
  MaxCmds = 3
  Menu = {"select", "noop", "expunge"}
  Devs = {}
CONSTRAINT FConstr
INVARIANT NeverInLimbo
INVARIANT NothingLost
INVARIANT AllOrNothing
INVARIANT ConvergedUids
CHECK_DEADLOCK FALSE
