\* sanity of the FULL menu: every single command from both initial states, all properties
SPECIFICATION Spec
CONSTANTS
  KwPermitted = FALSE
  OorLenient = {"copy", "fetch", "move", "store"}
  OorStrict = {"copy", "fetch", "move", "store"}
  RecLenient = {"append", "store"}
  RecStrict = {"append", "store"}
  AppendKw = {"drop", "keep"}
  Inits = {"empty", "std"}
  MaxCmds = 1
  MaxUid = 12
  Profile = "full"
  TwoLevel = FALSE
INVARIANT TypeOK
INVARIANT UidsBelowNext
INVARIANT NoRecentStored
INVARIANT KwOnlyIfAllowed
INVARIANT ContentHasOneDate
PROPERTY UidsAscend
PROPERTY RefusedInert
PROPERTY MoveIsCopyStoreExpunge
PROPERTY ExpungeExact
PROPERTY FetchSeenExact
PROPERTY StoreExact
PROPERTY OtherLeavesSession
CHECK_DEADLOCK FALSE
