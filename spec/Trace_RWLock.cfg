SPECIFICATION TSpec
CONSTANTS
  Task = {"t1", "t2", "t3"}
  MaxOps = 3
  MaxCancel = 99
  Variant = "fixed"
CONSTRAINT Record
POSTCONDITION Post
CHECK_DEADLOCK FALSE
INVARIANT Excl
