----------------------------- MODULE Namespace -----------------------------
(***************************************************************************)
(* RFC 3501 reference model of the mailbox namespace of ONE user (C11):    *)
(* CREATE DELETE RENAME SUBSCRIBE UNSUBSCRIBE LIST LSUB STATUS SELECT      *)
(* APPEND over a set of names.                                             *)
(*                                                                         *)
(* Names and patterns are sequences of TOKENS (strings):                   *)
(*   "/"  the hierarchy delimiter         "*" "%"  the two wildcards (in a *)
(*   "I"  the string INBOX                 pattern; ordinary characters in *)
(*   "i"  a case variant of INBOX          a NAME)                         *)
(*   "n"  a newline character             "&"  only in (garbled) output    *)
(*   "u"  a name part the store cannot hold (see Unstorable)               *)
(*   anything else: an ordinary letter, concretised by the harness (plain  *)
(*   letters, with space / quote / backslash / non-ASCII / ...).           *)
(*                                                                         *)
(* Every command is total: Outcomes(c) is the SET of results RFC 3501      *)
(* allows in the current state (latitude = several outcomes, each tagged   *)
(* with the latitude it uses), plus - only for d \in Dev - the outcomes of *)
(* the named deviations d of the tree under test (r.dev = {d}).            *)
(*   NextRFC  : any allowed outcome      (sanity properties, trace check)  *)
(*   NextAsIs : the one outcome pymap is believed to produce (a selection  *)
(*              FROM Outcomes, so a refinement by construction); this is   *)
(*              the deterministic graph that is replayed on the server.    *)
(* `store` says which backend a behaviour is about (chosen in Init from    *)
(* Stores, then constant): "dict", or maildir in the Maildir++ layout      *)
(* ("pp") or in the filesystem layout ("fs").  The allowed outcomes are    *)
(* the same for every store, except for the names a store cannot hold      *)
(* (Unstorable: CREATE / RENAME to them, SUBSCRIBE of a name with a line   *)
(* break on maildir, may answer NO).  Otherwise the store only selects, in *)
(* NextAsIs, which allowed outcome the backend is believed to produce, and *)
(* it scopes the deviations (DevFor).  A deviation may end the connection  *)
(* without a tagged answer: "* BYE" (r.bye).                               *)
(* `last` is the abstract result of the last command, `probe` what         *)
(* LIST "" * and LSUB "" * may answer in the current state (derived).      *)
(* Commands are issued only when last = Null; Forget resets it, so that    *)
(* the dumped graph has |core| * |commands| result nodes, not the square.  *)
(***************************************************************************)
EXTENDS Naturals, Sequences, FiniteSets, TLC

CONSTANTS CreateArgs,   \* names given to CREATE
          NameArgs,     \* names given to DELETE STATUS SELECT
          AppendArgs,   \* names given to APPEND
          SubArgs,      \* names given to SUBSCRIBE UNSUBSCRIBE
          RenameArgs,   \* pairs <<from, to>>
          ListQ, LsubQ, \* pairs <<reference, pattern>>
          InitSets,     \* set of <<set of names that exist, set of subscribed names>>
          MaxMsgs,      \* APPEND is not issued to a mailbox holding MaxMsgs
          MaxLen,       \* RENAME is not issued when it would build a longer name
          AllOpen,      \* deviations switched on (each applies to its stores only)
          Stores        \* subset of {"dict", "pp", "fs"} (maildir layouts '++' and 'fs')

VARIABLES mbx,          \* [existing name -> number of messages]
          sub,          \* set of subscribed names
          last,         \* Null or [cmd, r]
          probe,        \* derived: allowed answers to LIST "" * / LSUB "" *
          store         \* the backend of this behaviour (never changes)

vars == <<mbx, sub, last, probe, store>>

SEP   == "/"
Inbox == <<"I">>
Null  == [cmd |-> <<"none">>, r |-> [ok |-> TRUE, dev |-> {}, tag |-> {}]]

AllDev == {"StarSkipsNewline", "EndAnchorBeforeTrailingNewline",
           "NewlineEncodedAsAmpersand", "CreateKeepsTrailingDelimiter",
           "RenameInboxMovesInferiors", "LsubOmitsMissingSubscribed",
           "LeadingDelimiterDropped"}
\* deviations of the maildir backend (both layouts unless the name says Fs)
MaildirDev == {"MaildirCreateExistingBye", "MaildirMissingSuperiorBye",
               "MaildirRenameOntoExisting", "MaildirRenameMissingSource",
               "MaildirRenameInboxRefused", "MaildirLsubOmitsMissingSubscribed",
               "MaildirSubscriptionNewlineSplit", "MaildirFsLeadingDelimiterAlias",
               "MaildirFsRenameIntoInferiorBye"}
FsOnlyDev == {"MaildirFsLeadingDelimiterAlias", "MaildirFsRenameIntoInferiorBye"}
\* maildir shares the session layer and ListTree with dict, not the mailbox set
DictOnlyDev == {"LsubOmitsMissingSubscribed", "RenameInboxMovesInferiors"}
DevFor(st) == IF st = "dict" THEN AllDev
              ELSE (AllDev \ DictOnlyDev)
                   \cup (IF st = "fs" THEN MaildirDev ELSE MaildirDev \ FsOnlyDev)
Store   == store
Dev     == AllOpen \cap DevFor(store)
Maildir == Store \in {"pp", "fs"}
AllKnown == AllDev \cup MaildirDev

Norm(a) == IF a = <<"i">> THEN Inbox ELSE a
Range(s) == {s[k] : k \in 1..Len(s)}
Front(s) == SubSeq(s, 1, Len(s) - 1)
IsPrefix(p, n) == Len(p) <= Len(n) /\ SubSeq(n, 1, Len(p)) = p
Inferior(n, f) == IsPrefix(f \o <<SEP>>, n)            \* n strictly below f
\* the hierarchy levels above n ("a" and "a/b" for "a/b/c")
Levels(n)  == {SubSeq(n, 1, k - 1) : k \in {j \in 2..Len(n) : n[j] = SEP}}
\* levels of hierarchy that are not themselves in E (listed with \Noselect)
Implied(E) == UNION {Levels(n) : n \in E} \ E
\* the levels above the direct parent ("a" for "a/b/c")
DeepLevels(n) == {x \in Levels(n) : \E y \in Levels(n) : Len(y) > Len(x)}
HasEmptyPart(n) == \/ n[1] = SEP \/ n[Len(n)] = SEP
                   \/ \E k \in 1..(Len(n) - 1) : n[k] = SEP /\ n[k + 1] = SEP
\* Names the store cannot hold.  RFC 3501 6.3.3 / 6.3.5: "NO - create failure:
\* can't create mailbox with that name", "can't rename to mailbox with that
\* name".  The token "u" is a name part that is concretised, per store, by a
\* text the store has no place for (a part with a "." under Maildir++, whose
\* directories are the parts joined by "."; "tmp", a directory of every
\* maildir, under the filesystem layout, where a part is a path component -
\* an empty part is none).  The dict backend holds every name.
Unstorable(n) == /\ Maildir /\ n # <<>>
                 /\ \/ "u" \in Range(n)
                    \/ Store = "fs" /\ HasEmptyPart(n)
\* a subscription file with one name per line: the runs between newlines
\* (the empty run before a leading, after a trailing newline: the empty name)
RECURSIVE Pieces(_)
Pieces(n) ==
  LET idx == {k \in 1..Len(n) : n[k] = "n"} IN
  IF idx = {} THEN {n}
  ELSE LET k == CHOOSE k \in idx : \A j \in idx : k <= j IN
       {SubSeq(n, 1, k - 1)} \cup Pieces(SubSeq(n, k + 1, Len(n)))
SplitAll(S) == UNION {Pieces(n) : n \in S}

---------------------------------------------------------------------------
(* The RFC 3501 section 6.3.8 matcher.  D: matcher deviations in force.    *)

RECURSIVE MatchX(_, _, _)
MatchX(p, n, D) ==
  IF p = <<>>
  THEN n = <<>> \/ ("EndAnchorBeforeTrailingNewline" \in D /\ n = <<"n">>)
  ELSE LET h == Head(p)  t == Tail(p) IN
       IF h = "*"
       THEN \/ MatchX(t, n, D)
            \/ /\ n # <<>>
               /\ ~("StarSkipsNewline" \in D /\ Head(n) = "n")
               /\ MatchX(p, Tail(n), D)
       ELSE IF h = "%"
       THEN \/ MatchX(t, n, D)
            \/ n # <<>> /\ Head(n) # SEP /\ MatchX(p, Tail(n), D)
       ELSE n # <<>> /\ Head(n) = h /\ MatchX(t, Tail(n), D)

Match(p, n) == MatchX(p, n, {})

Fold(p) == [k \in 1..Len(p) |-> IF p[k] = "i" THEN "I" ELSE p[k]]

\* how a name is written in a LIST/LSUB response
Garble(n, D) ==
  IF "NewlineEncodedAsAmpersand" \in D
  THEN [k \in 1..Len(n) |-> IF n[k] = "n" THEN "&" ELSE n[k]] ELSE n

\* interpretations of <reference, pattern> the RFC leaves to the server;
\* the first one (plain concatenation) is what pymap does
Canons(ref, pat) ==
  {<<ref \o pat, {}>>}
  \cup (IF ref # <<>> /\ pat # <<>> /\ pat[1] = SEP
        THEN {<<pat, {"refIgnored"}>>} ELSE {})
  \cup (IF ref # <<>> /\ ref[Len(ref)] # SEP /\ pat # <<>> /\ pat[1] # SEP
        THEN {<<ref \o <<SEP>> \o pat, {"refDelimited"}>>} ELSE {})

ListDevs == {"StarSkipsNewline", "EndAnchorBeforeTrailingNewline",
             "NewlineEncodedAsAmpersand", "LeadingDelimiterDropped"}

R0(ok, tag, dev) == [ok |-> ok, tag |-> tag, dev |-> dev, bye |-> FALSE,
                     fresh |-> {}, gone |-> {}, moved |-> {}, app |-> {}]

\* E0: the names listed (mailboxes, or subscriptions); X0: the names that
\* exist as mailboxes; lsub: BOOLEAN.  Result: the names that must / may be
\* returned, those that must / must not carry \Noselect, and `exact`, the
\* answer when everything optional is returned.
ListVariant(E0, X0, lsub, canon, ctag, D) ==
  LET lead == "LeadingDelimiterDropped" \in D
      \* deviation: a leading delimiter is lost (the tree is keyed by the parts
      \* of the name and the empty first part is not joined back)
      Strip(n) == IF lead /\ n # <<>> /\ n[1] = SEP THEN Tail(n) ELSE n
      E    == {Strip(n) : n \in E0}
      X    == {Strip(n) : n \in X0}
      \* the level above "/a" is the root, whose name is empty: a server may
      \* list it (\Noselect); the deviation lists it like any other level
      root == IF \E n \in E0 : n # <<>> /\ n[1] = SEP THEN {<<>>} ELSE {}
      impl == (Implied(E) \cup (IF lead THEN root ELSE {})) \ E
      M(n) == MatchX(canon, n, D)
      ex   == {n \in E : M(n)}
      imp  == {n \in impl : M(n)}
      optr == IF lead THEN {} ELSE {n \in root : M(n)}
      pend == canon[Len(canon)] = "%"
      \* INBOX: returned case-insensitively / always subscribed: optional
      inb  == IF MatchX(Fold(canon), Inbox, D) /\ Inbox \notin ex
              THEN {Inbox} ELSE {}
      G(S) == {Garble(n, D) : n \in S}
      must == G(ex \cup (IF pend THEN imp ELSE {}))
      may  == G(imp \cup inb \cup optr)
  IN R0(TRUE, ctag, D) @@
     [one |-> FALSE, must |-> must, may |-> may, exact |-> must \cup may,
      sel   |-> G((IF lsub THEN E \cap X ELSE E) \cap (ex \cup inb)),
      nosel |-> G(((impl \ (IF lsub THEN {Inbox} ELSE X)) \cap imp) \cup optr)]

HasTok(S, tok) == \E n \in S : tok \in Range(n)
OmitDev == {"LsubOmitsMissingSubscribed", "MaildirLsubOmitsMissingSubscribed"} \cap Dev
NLSplit == "MaildirSubscriptionNewlineSplit"

\* all allowed answers to LIST/LSUB ref pat in the state <<m, s>>
ListVariants(m, s, lsub, ref, pat) ==
  LET X == DOMAIN m
      EI == IF lsub THEN s ELSE X
      \* deviations that can make a difference here
      dl == (Dev \cap ListDevs)
            \ ((IF HasTok(EI, "n") THEN {} ELSE {"StarSkipsNewline",
                    "EndAnchorBeforeTrailingNewline", "NewlineEncodedAsAmpersand"})
               \cup (IF \E n \in EI : n # <<>> /\ n[1] = SEP THEN {}
                     ELSE {"LeadingDelimiterDropped"}))
      \* maildir: the subscriptions are lines of a file, a name with a newline
      \* comes back as its pieces (a deviation of SUBSCRIBE, which shows here for
      \* the names subscribed in the initial state)
      dn == IF lsub /\ NLSplit \in Dev /\ SplitAll(s) # s THEN {NLSplit} ELSE {}
      dm == IF lsub /\ OmitDev # {}
               /\ (~(s \subseteq X) \/ (dn # {} /\ ~(SplitAll(s) \subseteq X)))
            THEN OmitDev ELSE {}
  IN IF pat = <<>>
     THEN \* the root query: one \Noselect entry naming (a prefix of) the reference
          {R0(TRUE, {}, {}) @@
           [one |-> TRUE, must |-> {}, exact |-> {<<>>},
            may |-> {SubSeq(ref, 1, k) : k \in 0..Len(ref)},
            sel |-> {}, nosel |-> {SubSeq(ref, 1, k) : k \in 0..Len(ref)}]}
     ELSE {LET E1 == IF NLSplit \in D THEN SplitAll(EI) ELSE EI IN
           ListVariant(IF D \cap OmitDev # {} THEN E1 \cap X ELSE E1,
                       X, lsub, c[1], c[2], D)
           : c \in Canons(ref, pat), D \in SUBSET (dl \cup dm \cup dn)}

\* the answer pymap gives: every applicable deviation, plain concatenation,
\* everything optional is returned
\* (r.dev: the SMALLEST set of deviations that explains this answer)
SameAnswer(v, w) == /\ v.tag = w.tag /\ v.one = w.one /\ v.must = w.must
                    /\ v.may = w.may /\ v.sel = w.sel /\ v.nosel = w.nosel
ListAsIs(m, s, lsub, ref, pat) ==
  LET vs == ListVariants(m, s, lsub, ref, pat)
      v  == CHOOSE v \in vs : v.tag = {} /\ \A w \in vs : w.dev \subseteq v.dev
      eq == {w \in vs : SameAnswer(v, w)}
  IN CHOOSE w \in eq : \A u \in eq : Cardinality(w.dev) <= Cardinality(u.dev)

Probe(m, s) == [list |-> ListAsIs(m, s, FALSE, <<>>, <<"*">>),
                lsub |-> ListAsIs(m, s, TRUE, <<>>, <<"*">>)]

---------------------------------------------------------------------------
(* Outcomes of the commands in the current state: sets of [r, m, s].       *)

Out(r, m, s) == [r |-> r, m |-> m, s |-> s]
Same(r)      == Out(r, mbx, sub)
No(tag)      == Same(R0(FALSE, tag, {}))
\* a deviation that ends the connection: "* BYE", no tagged answer, nothing changes
Bye(d)       == Same([R0(FALSE, {}, {d}) EXCEPT !.bye = TRUE])
Mark(o, d)   == [o EXCEPT !.r.dev = @ \cup {d}]
WithDev(outs, d) == {Mark(o, d) : o \in outs}

\* maildir: the names that are a directory of the store
Dirs == DOMAIN mbx \ {Inbox}
\* the superiors that must be directories for a folder to be made: the
\* filesystem layout nests the directories; the Maildir++ one is flat, but
\* looks for all superiors except the direct parent
NeededDirs(n) == IF Store = "fs" THEN Levels(n) ELSE DeepLevels(n)

\* deviation (filesystem layout): an empty first part is lost on the way to the
\* path, "/a" IS "a" for every command that resolves a mailbox
FsAlias  == "MaildirFsLeadingDelimiterAlias"
Alias(a) == FsAlias \in Dev /\ Len(a) > 1 /\ a[1] = SEP /\ a[2] # SEP
Al(a)    == IF Alias(a) THEN Tail(a) ELSE a
Aliased(F(_), a)     == F(a) \cup (IF Alias(a) THEN WithDev(F(Tail(a)), FsAlias) ELSE {})
AliasedAsIs(F(_), a) == IF Alias(a) THEN Mark(F(Tail(a)), FsAlias) ELSE F(a)

\* CREATE of a name without trailing delimiter.  "parents": the server also
\* created the missing superior names (SHOULD, RFC 3501 6.3.3); "unstorable":
\* see Unstorable
CreatePlain(n) ==
  LET dx == "MaildirCreateExistingBye"
      ds == "MaildirMissingSuperiorBye"
  IN
  IF n = Inbox THEN {No({})}
  ELSE IF n \in DOMAIN mbx
  THEN {No({})} \cup (IF dx \in Dev THEN {Bye(dx)} ELSE {})
  ELSE {LET new == {n} \cup P IN
        Out([R0(TRUE, IF P = {} THEN {} ELSE {"parents"}, {}) EXCEPT !.fresh = new],
            [x \in DOMAIN mbx \cup new |-> IF x \in new THEN 0 ELSE mbx[x]], sub)
        : P \in {{}, Levels(n) \ DOMAIN mbx}}
       \cup (IF Unstorable(n) THEN {No({"unstorable"})} ELSE {})
       \cup (IF ds \in Dev /\ ~Unstorable(n) /\ ~(NeededDirs(n) \subseteq Dirs)
             THEN {Bye(ds)} ELSE {})

CreateOutcomes0(a) ==
  IF Len(a) > 1 /\ a[Len(a)] = SEP
  THEN \* "the name created is without the trailing hierarchy delimiter"
       LET base == Norm(Front(a))
           d    == "CreateKeepsTrailingDelimiter"
       IN CreatePlain(base)
          \cup (IF base \in DOMAIN mbx THEN {Same(R0(TRUE, {"declared"}, {}))} ELSE {})
          \cup (IF d \notin Dev THEN {}
                ELSE IF a \in DOMAIN mbx THEN {Same(R0(FALSE, {}, {d}))}
                ELSE {Out([R0(TRUE, {}, {d}) EXCEPT !.fresh = {a}],
                          [x \in DOMAIN mbx \cup {a} |-> IF x = a THEN 0 ELSE mbx[x]],
                          sub)})
  ELSE CreatePlain(Norm(a))

CreateOutcomes(a) == Aliased(CreateOutcomes0, a)

SameEffect(o, p) == o.r.ok = p.r.ok /\ o.r.bye = p.r.bye /\ o.m = p.m /\ o.s = p.s
\* prefer an allowed outcome with the same effect to a deviation
Undeviate(o, outs) ==
  LET eq == {p \in outs : p.r.dev = {} /\ SameEffect(o, p)}
  IN IF eq = {} THEN o
     ELSE CHOOSE p \in eq : \A q \in eq : Cardinality(p.r.tag) <= Cardinality(q.r.tag)

\* maildir refuses what it cannot store before it looks at anything else; the
\* filesystem layout makes the missing superiors, the others leave them implied
CreateAsIs0(a) ==
  LET outs == CreateOutcomes0(a)
      devs == {o \in outs : o.r.dev # {}}
      uns  == {o \in outs : "unstorable" \in o.r.tag}
      par  == {o \in outs : o.r.tag = {"parents"}}
  IN IF uns # {} THEN CHOOSE o \in uns : TRUE
     ELSE IF devs # {} THEN Undeviate(CHOOSE o \in devs : TRUE, outs)
     ELSE IF Store = "fs" /\ par # {} THEN CHOOSE o \in par : TRUE
     ELSE CHOOSE o \in outs : o.r.tag = {}

CreateAsIs(a) == AliasedAsIs(CreateAsIs0, a)

\* "haschildren": RFC 3501 6.3.4 lets a mailbox that has inferiors be deleted
\* (it becomes \Noselect); a store that cannot keep a name without its mailbox
\* refuses instead (RFC 5530 HASCHILDREN: "the server doesn't allow deletion of
\* mailboxes with children"), and nothing changes
DeleteOutcomes0(a) ==
  LET n == Norm(a) IN
  IF n = Inbox \/ n \notin DOMAIN mbx THEN {No({})}
  ELSE {Out([R0(TRUE, {}, {}) EXCEPT !.gone = {n}],
            [x \in DOMAIN mbx \ {n} |-> mbx[x]], sub)}
       \cup (IF \E x \in DOMAIN mbx : Inferior(x, n) THEN {No({"haschildren"})} ELSE {})

DeleteOutcomes(a) == Aliased(DeleteOutcomes0, a)

DeleteAsIs0(a) ==
  LET outs == DeleteOutcomes0(a)
      hc   == {o \in outs : o.r.tag = {"haschildren"}}
  IN IF Store = "fs" /\ hc # {} THEN CHOOSE o \in hc : TRUE
     ELSE CHOOSE o \in outs : o.r.tag = {}

DeleteAsIs(a) == AliasedAsIs(DeleteAsIs0, a)

\* RENAME.  Inferiors of INBOX "are unaffected by a rename of INBOX".
\* Latitude: refusing when the source is only a \Noselect level of hierarchy,
\* the target name is one, or the target is an inferior of the source
\* ("refuse"); refusing a target the store cannot hold ("unstorable"); moving
\* subscriptions along ("submoved"); creating superiors of the target that do
\* not exist (6.3.5 "SHOULD create any superior hierarchical names that are
\* needed": "parents", any of them).  Not enabled (empty set) if a name longer
\* than MaxLen would be built.
RenameOutcomes0(a, b) ==
  LET f == Norm(a)  t == Norm(b)
      E == DOMAIN mbx
      infs == {n \in E : Inferior(n, f)}
      Mv(S) == {<<n, t \o SubSeq(n, Len(f) + 1, Len(n))>> : n \in S}
      ideal == Mv(({f} \cap E) \cup (IF f = Inbox THEN {} ELSE infs))
      devmv == Mv(({f} \cap E) \cup infs)
      Conflict(mv) == \E x \in mv : x[2] \in E
      \* the effect of moving mv and creating the empty mailboxes P
      Eff(r, mv, P, s2) ==
        LET src == {x[1] : x \in mv}  tgt == {x[2] : x \in mv}
            fr  == (IF f = Inbox /\ mv # {} THEN {Inbox} ELSE {}) \cup P
        IN Out([r EXCEPT !.moved = mv, !.fresh = fr],
               [x \in ((E \ src) \cup tgt \cup fr) |->
                  IF x \in tgt THEN mbx[(CHOOSE y \in mv : y[2] = x)[1]]
                  ELSE IF x \in fr THEN 0 ELSE mbx[x]],
               s2)
      SubMoved(mv) == (sub \ {x[1] : x \in mv})
                      \cup {x[2] : x \in {y \in mv : y[1] \in sub}}
      Sup == Levels(t) \ E
      OkSet(mv, dev) ==
        UNION {LET pt == IF P = {} THEN {} ELSE {"parents"} IN
               {Eff(R0(TRUE, pt, dev), mv, P, sub)}
               \cup (IF SubMoved(mv) # sub
                     THEN {Eff(R0(TRUE, pt \cup {"submoved"}, dev), mv, P, SubMoved(mv))}
                     ELSE {})
               : P \in SUBSET Sup}
      dR == "RenameInboxMovesInferiors"
      dI == "MaildirRenameInboxRefused"      dM == "MaildirRenameMissingSource"
      dE == "MaildirRenameOntoExisting"      dS == "MaildirMissingSuperiorBye"
      dV == "MaildirFsRenameIntoInferiorBye"
      \* (maildir looks at the two names before anything else)
      st == ~Unstorable(f) /\ ~Unstorable(t) /\ f # Inbox
      \* maildir renames directory by directory without looking first.  In the
      \* filesystem layout the mailbox with its inferiors is ONE directory; in
      \* Maildir++ each is a directory of its own, and when one cannot be renamed
      \* the others may or may not have been
      Unchecked ==
        IF f = t THEN {Same(R0(TRUE, {}, {dE}))}
        ELSE IF Store = "fs" THEN {Bye(dE)}
        ELSE {Eff([R0(mv = devmv, {}, {dE}) EXCEPT !.bye = (mv # devmv)], mv, {}, sub)
              : mv \in {m \in SUBSET devmv :
                          {x[2] : x \in m} \cap (E \ {x[1] : x \in m}) = {}}}
      onto == IF dE \in Dev /\ st THEN Unchecked ELSE {}
  IN IF \E x \in devmv : Len(x[2]) > MaxLen THEN {}
     ELSE IF t = Inbox THEN {No({})}
     ELSE (IF Unstorable(t) THEN {No({"unstorable"})} ELSE {}) \cup
          (IF f \notin E /\ infs = {}
           THEN {No({})}
                \cup (IF dM \in Dev /\ st
                      THEN (IF Store = "fs" THEN {Bye(dM)} ELSE {Same(R0(TRUE, {}, {dM}))})
                      ELSE {})
           ELSE IF t \in E THEN {No({})} \cup onto
           ELSE (IF Conflict(ideal) THEN {No({})} \cup onto
                 ELSE OkSet(ideal, {})
                      \cup (IF f \notin E \/ t \in Implied(E) \/ Inferior(t, f)
                            THEN {No({"refuse"})} ELSE {})
                      \cup (IF dI \in Dev /\ f = Inbox THEN {Same(R0(FALSE, {}, {dI}))} ELSE {})
                      \cup (IF dV \in Dev /\ Store = "fs" /\ st /\ f \in E /\ Inferior(t, f)
                            THEN {Bye(dV)} ELSE {})
                      \cup (IF dS \in Dev /\ Store = "fs" /\ st /\ ~Inferior(t, f)
                               /\ ~(Levels(t) \subseteq Dirs)
                            THEN {Eff([R0(FALSE, {}, {dS}) EXCEPT !.bye = TRUE], {},
                                      DeepLevels(t) \ E, sub)}
                            ELSE {}))
                \cup (IF dR \in Dev /\ f = Inbox /\ infs # {} /\ ~Conflict(devmv)
                      THEN OkSet(devmv, {dR}) ELSE {}))

RenameOutcomes(a, b) ==
  RenameOutcomes0(a, b)
  \cup (IF Alias(a) \/ Alias(b) THEN WithDev(RenameOutcomes0(Al(a), Al(b)), FsAlias) ELSE {})

RenameAsIs0(a, b) ==
  LET outs == RenameOutcomes0(a, b)
      f == Norm(a)  t == Norm(b)
      devs == {o \in outs : o.r.dev # {}}
      nos  == {o \in outs : ~o.r.ok /\ ~o.r.bye /\ o.r.dev = {}}
      par  == {o \in outs : o.r.ok /\ o.r.dev = {} /\ o.r.tag = {"parents"}}
      \* (renaming one directory after the other: all of it when no target is in
      \* the way, else - the order being the directory's - taken as none of it)
      whole == {o \in devs : o.r.ok}
      still == IF whole # {} THEN whole ELSE {o \in devs : o.r.moved = {}}
  IN IF Store = "dict"
     THEN IF (\A o \in outs : ~o.r.ok) \/ t \in Implied(DOMAIN mbx)
          THEN CHOOSE o \in outs : ~o.r.ok
          ELSE IF devs # {} THEN CHOOSE o \in devs : o.r.tag = {}
          ELSE CHOOSE o \in outs : o.r.ok /\ o.r.tag = {}
     ELSE IF Unstorable(f) \/ Unstorable(t) \/ (devs = {} /\ \A o \in outs : ~o.r.ok)
     THEN CHOOSE o \in nos : TRUE
     ELSE IF devs # {}
     THEN Undeviate(IF still # {} THEN CHOOSE o \in still : TRUE ELSE CHOOSE o \in devs : TRUE,
                    outs)
     \* (once maildir looks first, it looks like dict: a level of hierarchy that
     \* is no mailbox is in the way, too; nested directories cannot go into themselves)
     ELSE IF t \in Implied(DOMAIN mbx) /\ "MaildirRenameOntoExisting" \notin Dev
     THEN CHOOSE o \in nos : TRUE
     ELSE IF Store = "fs" /\ Inferior(t, f) THEN CHOOSE o \in nos : TRUE
     ELSE IF Store = "fs" /\ par # {}
     THEN CHOOSE o \in par : \A p \in par : p.r.fresh \subseteq o.r.fresh
     ELSE CHOOSE o \in outs : o.r.ok /\ o.r.tag = {}

RenameEnabled(a, b) == RenameOutcomes0(Al(a), Al(b)) # {}
RenameAsIs(a, b) ==
  IF Alias(a) \/ Alias(b) THEN Mark(RenameAsIs0(Al(a), Al(b)), FsAlias) ELSE RenameAsIs0(a, b)

\* "A server MAY validate the mailbox argument to SUBSCRIBE".  maildir keeps
\* the subscriptions in a file of lines: a name with a line break is a name
\* the store cannot hold ("unstorable").  The deviation writes it nevertheless
\* and reads back the pieces.
SubscribeOutcomes(a) ==
  LET n == Norm(a)
      nl == Maildir /\ "n" \in Range(n)
  IN
  {Out(R0(TRUE, {}, {}), mbx, sub \cup {n})}
  \cup (IF n \notin DOMAIN mbx THEN {No({"refuse"})} ELSE {})
  \cup (IF nl THEN {No({"unstorable"})} ELSE {})
  \cup (IF nl /\ NLSplit \in Dev
        THEN {Out(R0(TRUE, {}, {NLSplit}), mbx, sub \cup Pieces(n))} ELSE {})

SubscribeAsIs(a) ==
  LET outs == SubscribeOutcomes(a)
      devs == {o \in outs : o.r.dev # {}}
      uns  == {o \in outs : o.r.tag = {"unstorable"}}
  IN IF devs # {} THEN CHOOSE o \in devs : TRUE
     ELSE IF uns # {} THEN CHOOSE o \in uns : TRUE
     ELSE CHOOSE o \in outs : o.r.ok

\* (the deviation: the name is looked for among the lines read, where it is not)
UnsubscribeOutcomes(a) ==
  LET n == Norm(a) IN
  {Out(R0(TRUE, {}, {}), mbx, sub \ {n})}
  \cup (IF n \notin sub THEN {No({"refuse"})} ELSE {})
  \cup (IF Maildir /\ "n" \in Range(n) /\ NLSplit \in Dev
        THEN {Same(R0(TRUE, {}, {NLSplit}))} ELSE {})

UnsubscribeAsIs(a) ==
  LET outs == UnsubscribeOutcomes(a)
      devs == {o \in outs : o.r.dev # {}}
  IN IF devs # {} THEN Undeviate(CHOOSE o \in devs : TRUE, outs)
     ELSE CHOOSE o \in outs : o.r.ok

\* STATUS and SELECT (the harness selects, fetches all UIDs, closes)
QueryOutcomes0(a) ==
  LET n == Norm(a) IN
  IF n \in DOMAIN mbx
  THEN {Same(R0(TRUE, {}, {}) @@ [n |-> mbx[n]])}
  ELSE {Same(R0(FALSE, {}, {}) @@ [n |-> 0])}

QueryOutcomes(a) == Aliased(QueryOutcomes0, a)
QueryAsIs0(a) == CHOOSE o \in QueryOutcomes0(a) : TRUE
QueryAsIs(a)  == AliasedAsIs(QueryAsIs0, a)

\* not enabled on a full mailbox
AppendOutcomes0(a) ==
  LET n == Norm(a) IN
  IF n \notin DOMAIN mbx THEN {No({})}
  ELSE IF mbx[n] >= MaxMsgs THEN {}
  ELSE {Out([R0(TRUE, {}, {}) EXCEPT !.app = {n}],
            [mbx EXCEPT ![n] = @ + 1], sub)}

AppendOutcomes(a) == Aliased(AppendOutcomes0, a)
AppendEnabled(a)  == AppendOutcomes0(Al(a)) # {}
AppendAsIs0(a) == CHOOSE o \in AppendOutcomes0(a) : TRUE
AppendAsIs(a)  == AliasedAsIs(AppendAsIs0, a)

ListOutcomes(lsub, ref, pat) ==
  {Same(v) : v \in ListVariants(mbx, sub, lsub, ref, pat)}

ListOutAsIs(lsub, ref, pat) == Same(ListAsIs(mbx, sub, lsub, ref, pat))

---------------------------------------------------------------------------

Apply(c, o) == /\ last = Null
               /\ mbx' = o.m /\ sub' = o.s
               /\ last' = [cmd |-> c, r |-> o.r]
               /\ probe' = IF o.m = mbx /\ o.s = sub THEN probe ELSE Probe(o.m, o.s)
               /\ store' = store

Forget == last # Null /\ last' = Null /\ UNCHANGED <<mbx, sub, probe, store>>

\* --- any allowed outcome
CreateR(a)      == \E o \in CreateOutcomes(a)      : Apply(<<"create", a>>, o)
DeleteR(a)      == \E o \in DeleteOutcomes(a)      : Apply(<<"delete", a>>, o)
RenameR(a, b)   == \E o \in RenameOutcomes(a, b)   : Apply(<<"rename", a, b>>, o)
SubscribeR(a)   == \E o \in SubscribeOutcomes(a)   : Apply(<<"subscribe", a>>, o)
UnsubscribeR(a) == \E o \in UnsubscribeOutcomes(a) : Apply(<<"unsubscribe", a>>, o)
StatusR(a)      == \E o \in QueryOutcomes(a)       : Apply(<<"status", a>>, o)
SelectR(a)      == \E o \in QueryOutcomes(a)       : Apply(<<"select", a>>, o)
AppendR(a)      == \E o \in AppendOutcomes(a)      : Apply(<<"append", a>>, o)
ListR(ref, pat) == \E o \in ListOutcomes(FALSE, ref, pat) : Apply(<<"list", ref, pat>>, o)
LsubR(ref, pat) == \E o \in ListOutcomes(TRUE, ref, pat)  : Apply(<<"lsub", ref, pat>>, o)

NextRFC ==
  \/ Forget
  \/ \E a \in CreateArgs : CreateR(a)
  \/ \E a \in NameArgs : DeleteR(a) \/ StatusR(a) \/ SelectR(a)
  \/ \E p \in RenameArgs : RenameR(p[1], p[2])
  \/ \E a \in SubArgs : SubscribeR(a) \/ UnsubscribeR(a)
  \/ \E a \in AppendArgs : AppendR(a)
  \/ \E q \in ListQ : ListR(q[1], q[2])
  \/ \E q \in LsubQ : LsubR(q[1], q[2])

\* --- the outcome pymap is believed to produce (deterministic)
Create(a)      == Apply(<<"create", a>>, CreateAsIs(a))
Delete(a)      == Apply(<<"delete", a>>, DeleteAsIs(a))
Rename(a, b)   == RenameEnabled(a, b) /\ Apply(<<"rename", a, b>>, RenameAsIs(a, b))
Subscribe(a)   == Apply(<<"subscribe", a>>, SubscribeAsIs(a))
Unsubscribe(a) == Apply(<<"unsubscribe", a>>, UnsubscribeAsIs(a))
Status(a)      == Apply(<<"status", a>>, QueryAsIs(a))
Select(a)      == Apply(<<"select", a>>, QueryAsIs(a))
AppendMsg(a)   == AppendEnabled(a) /\ Apply(<<"append", a>>, AppendAsIs(a))
List(ref, pat) == Apply(<<"list", ref, pat>>, ListOutAsIs(FALSE, ref, pat))
Lsub(ref, pat) == Apply(<<"lsub", ref, pat>>, ListOutAsIs(TRUE, ref, pat))

NextAsIs ==
  \/ Forget
  \/ \E a \in CreateArgs : Create(a)
  \/ \E a \in NameArgs : Delete(a) \/ Status(a) \/ Select(a)
  \/ \E p \in RenameArgs : Rename(p[1], p[2])
  \/ \E a \in SubArgs : Subscribe(a) \/ Unsubscribe(a)
  \/ \E a \in AppendArgs : AppendMsg(a)
  \/ \E q \in ListQ : List(q[1], q[2])
  \/ \E q \in LsubQ : Lsub(q[1], q[2])

\* The harness builds an initial state with CREATE (shorter names first) and
\* SUBSCRIBE.  The filesystem layout cannot hold a name without its superiors
\* (Maildir++ wants all but the direct parent while MaildirMissingSuperiorBye
\* is open); a maildir that refuses to subscribe a name with a line break
\* (no MaildirSubscriptionNewlineSplit) does not have it in the initial state.
InitNames(S) ==
  S \cup UNION {IF Store = "fs" THEN Levels(n)
                ELSE IF Store = "pp" /\ "MaildirMissingSuperiorBye" \in Dev THEN DeepLevels(n)
                ELSE {} : n \in S}
InitSub(S) == IF Maildir /\ NLSplit \notin Dev THEN {n \in S : "n" \notin Range(n)} ELSE S

Init == /\ store \in Stores
        /\ \E i \in InitSets :
             /\ mbx = [n \in InitNames(i[1]) \cup {Inbox} |-> 0]
             /\ sub = InitSub(i[2])
        /\ last = Null
        /\ probe = Probe(mbx, sub)

SpecRFC  == Init /\ [][NextRFC]_vars
SpecAsIs == Init /\ [][NextAsIs]_vars

---------------------------------------------------------------------------
(* Sanity of the model itself (checked with Dev = {} on NextRFC).          *)

TypeOK == /\ Inbox \in DOMAIN mbx
          /\ \A n \in DOMAIN mbx : mbx[n] \in 0..MaxMsgs /\ n # <<>> /\ n # <<"i">>
          /\ <<"i">> \notin sub
          /\ last.r.ok \in BOOLEAN

\* '*' matches every name, '%' exactly the names of the top level; a pattern
\* without wildcards only itself; the probe lists exactly the mailboxes
MatcherSane ==
  /\ \A n \in DOMAIN mbx :
        /\ Match(<<"*">>, n)
        /\ Match(<<"%">>, n) <=> SEP \notin Range(n)
        /\ \A k \in DOMAIN mbx : ({"*", "%"} \cap Range(k) = {}) => (Match(k, n) <=> k = n)
  /\ Dev = {} => /\ probe.list.must = DOMAIN mbx
                 /\ probe.lsub.must = sub
                 /\ probe.list.may \cap DOMAIN mbx = {}

Cmd == last'.cmd
Res == last'.r
Src == {x[1] : x \in Res.moved}
Tgt == {x[2] : x \in Res.moved}

Step(P) == last = Null /\ last' # Null => P

\* a command answered NO changes nothing; queries change nothing
FailChangesNothing ==
  [][Step((~Res.ok \/ Cmd[1] \in {"status", "select", "list", "lsub"})
          => UNCHANGED <<mbx, sub>>)]_vars

\* INBOX is never created, deleted or overwritten: it is replaced by a fresh
\* empty mailbox only when it was itself renamed away
InboxProtected ==
  [][Step(/\ Inbox \notin Tgt /\ Inbox \notin Res.gone
          /\ Inbox \in Res.fresh => Cmd[1] = "rename" /\ Norm(Cmd[2]) = Inbox /\ mbx'[Inbox] = 0
          /\ (Inbox \notin Res.fresh /\ Inbox \notin Res.app) => mbx'[Inbox] = mbx[Inbox])]_vars

\* RENAME carries every moved mailbox unchanged to its new name, touches
\* nothing else, and never lands on an existing name
RenamePreserves ==
  [][Step(Cmd[1] = "rename" /\ Res.ok =>
          /\ Res.moved # {}
          /\ \A x \in Res.moved : x[1] \in DOMAIN mbx /\ x[2] \notin DOMAIN mbx
                                  /\ mbx'[x[2]] = mbx[x[1]]
          /\ DOMAIN mbx' = (DOMAIN mbx \ Src) \cup Tgt \cup Res.fresh
          /\ \A n \in DOMAIN mbx \ (Src \cup Res.fresh) : mbx'[n] = mbx[n])]_vars

\* the bookkeeping the harness uses to follow mailbox identities is exact
EffectsExact ==
  [][Step(/\ DOMAIN mbx' = ((DOMAIN mbx \ (Src \cup Res.gone)) \cup Tgt \cup Res.fresh)
          /\ \A n \in Res.fresh : mbx'[n] = 0
          /\ \A n \in Res.app : mbx'[n] = mbx[n] + 1
          /\ \A n \in DOMAIN mbx' \ (Tgt \cup Res.fresh \cup Res.app) : mbx'[n] = mbx[n]
          /\ Cmd[1] = "delete" /\ Res.ok => Res.gone = {Norm(Cmd[2])}
          /\ Cmd[1] # "delete" => Res.gone = {})]_vars

\* the believed behaviour of pymap is one of the allowed outcomes
RECURSIVE SetSum(_, _)
SetSum(f, S) == IF S = {} THEN 0 ELSE LET x == CHOOSE x \in S : TRUE
                                      IN f[x] + SetSum(f, S \ {x})
Conservation ==
  [][Step(Cmd[1] # "delete" => SetSum(mbx', DOMAIN mbx') >= SetSum(mbx, DOMAIN mbx))]_vars

---------------------------------------------------------------------------
(* Argument sets used by the configurations.                               *)

Seqs(A, L)  == UNION {[1..k -> A] : k \in 1..L}
\* no leading / trailing / doubled delimiter
WellFormed(n) == /\ n[1] # SEP /\ n[Len(n)] # SEP
                 /\ \A k \in 1..(Len(n) - 1) : ~(n[k] = SEP /\ n[k + 1] = SEP)
Pairs(S) == {<<x, y>> : x \in S, y \in S}
None == {<<{}, {}>>}

n_a == <<"a">>    n_b == <<"b">>    n_ab == <<"a", "/", "b">>    n_bb == <<"b", "/", "b">>
n_aS == <<"a", "/">>
n_Ia == <<"I", "/", "a">>   n_ba == <<"b", "/", "a">>   n_i == <<"i">>
n_abb == <<"a", "/", "b", "/", "b">>
n_an == <<"a", "n">>   n_anb == <<"a", "n", "b">>   n_Sa == <<"/", "a">>
n_st == <<"*">>   n_pc == <<"%">>   n_e == <<>>

\* hierarchy: parent / inferior / rename with inferiors / implied parents /
\* trailing delimiter
HierNames   == {n_a, n_b, n_ab, n_bb}
HierCreate  == {n_a, n_ab, n_b, n_aS, Inbox}
HierName    == {n_a, n_ab, n_b, n_bb, Inbox}
HierRename  == {<<n_a, n_b>>, <<n_b, n_a>>, <<n_ab, n_b>>, <<n_a, n_ab>>, <<n_ab, n_a>>, <<n_b, Inbox>>, <<n_a, n_a>>, <<Inbox, n_b>>}
HierSub     == {n_a, n_ab}
HierAppend  == {n_a, n_ab}
HierListQ   == {<<n_e, n_pc>>, <<n_aS, n_pc>>, <<n_e, <<"a", "/", "%">>>>, <<n_a, n_st>>, <<n_e, n_e>>, <<n_e, <<"%", "/", "%">>>>}
HierLsubQ   == {<<n_e, n_pc>>, <<n_e, <<"a", "/", "*">>>>}

\* the same, smaller (quick tier)
HierQCreate == {n_a, n_ab, n_b}
HierQName   == {n_a, n_ab, n_b, n_bb}
HierQRename == {<<n_a, n_b>>, <<n_b, n_a>>, <<n_ab, n_b>>, <<n_a, n_ab>>, <<n_b, Inbox>>, <<n_a, n_a>>}
HierQSub    == {n_ab, n_b}
HierQAppend == {n_a, n_ab}

\* trailing delimiter in CREATE
TrailCreate == {n_a, n_aS, n_ab}
TrailName   == {n_a}
TrailListQ  == {<<n_e, n_pc>>, <<n_e, <<"a", "/", "%">>>>}

\* INBOX: case variants, INBOX as a hierarchy parent, renaming INBOX
InbCreate   == {Inbox, n_i, n_Ia, n_a, n_ba}
InbName     == {Inbox, n_i, n_Ia, n_a, n_ba}
InbRename   == {<<Inbox, n_a>>, <<n_i, n_b>>, <<n_a, Inbox>>, <<n_a, n_i>>, <<n_Ia, n_a>>, <<n_b, n_a>>, <<n_a, n_Ia>>, <<Inbox, Inbox>>}
InbSub      == {Inbox, n_i, n_Ia}
InbAppend   == {Inbox, n_i, n_Ia, n_a}
InbListQ    == {<<n_e, Inbox>>, <<n_e, n_i>>, <<n_e, n_pc>>, <<Inbox, <<"/", "%">>>>, <<n_e, <<"I", "/", "*">>>>, <<n_e, <<"I", "*">>>>}
InbLsubQ    == {<<n_e, n_pc>>, <<n_e, n_i>>}

\* the same, smaller (quick tier)
InbQCreate  == {n_i, n_Ia, n_a}
InbQName    == {Inbox, n_i, n_Ia, n_a}
InbQRename  == {<<Inbox, n_a>>, <<n_i, n_b>>, <<n_a, Inbox>>, <<n_b, n_i>>}
InbQSub     == {n_i}
InbQAppend  == {n_i}

\* bigger universe for simulation
SimNames    == {n_a, n_b, n_ab, n_bb, n_ba, n_abb, n_Ia, n_an, n_anb, <<"a", "*">>, <<"a", "%">>, <<"a", "b">>}
SimCreate   == SimNames \cup {Inbox, n_i, n_aS, <<"b", "/">>}
SimName     == SimNames \cup {Inbox, n_i}
SimRename   == {<<n_a, n_b>>, <<n_b, n_a>>, <<n_ab, n_ba>>, <<n_ba, n_ab>>, <<n_ab, n_a>>, <<n_a, n_ab>>,
                <<Inbox, n_a>>, <<Inbox, n_b>>, <<n_i, n_an>>, <<n_a, Inbox>>, <<n_b, n_i>>,
                <<n_an, n_anb>>, <<n_anb, n_b>>, <<<<"a", "*">>, <<"a", "%">>>>, <<<<"a", "%">>, n_b>>,
                <<n_b, n_bb>>, <<n_bb, n_b>>, <<n_a, n_a>>, <<n_Ia, n_a>>, <<n_b, n_Ia>>,
                <<n_b, <<"a", "b">>>>, <<n_abb, n_a>>, <<n_ab, n_b>>}
SimListQ    == {<<n_e, n_pc>>, <<n_e, n_st>>, <<n_aS, n_pc>>, <<n_a, n_st>>, <<n_e, <<"a", "*">>>>, <<n_e, <<"a", "%">>>>,
                <<n_e, <<"%", "/", "%">>>>, <<n_e, <<"*", "b">>>>, <<n_e, n_i>>, <<n_e, n_e>>, <<n_aS, n_e>>,
                <<n_e, <<"a", "/", "*">>>>, <<n_e, <<"%", "b">>>>, <<Inbox, <<"/", "%">>>>, <<n_e, n_a>>, <<n_e, n_an>>}

\* the matcher: all well-formed names over an alphabet that start with the same
\* token exist at once (and are subscribed), and each hierarchical name alone
\* (implied parents); every pattern over the pattern alphabet
\* (a run of control characters is a different story for the encoder: C18)
NoNLRun(n)     == \A k \in 1..(Len(n) - 1) : ~(n[k] = "n" /\ n[k + 1] = "n")
MNames(A, L)   == {n \in Seqs(A, L) : WellFormed(n) /\ NoNLRun(n)}
MQueries(A, L) == {<<n_e, p>> : p \in Seqs(A, L)}
                  \cup {<<r, p>> : r \in {n_a, n_aS}, p \in Seqs(A, L - 1)}
\* (grouped by first token: superiors and inferiors share it)
MInit(S)  == {<<G, G>> : G \in {{n \in S : n[1] = t} : t \in {x[1] : x \in S}}}
             \cup {<<{n}, {n}>> : n \in {x \in S : SEP \in Range(x)}}

MatchQuickNames == MNames({"a", "b", "/", "*", "n"}, 3)
MatchQuickQ     == MQueries({"a", "b", "/", "*", "%"}, 3) \cup {<<n_e, <<"a", "n">>>>, <<n_e, <<"a", "n", "*">>>>, <<n_e, <<"*", "n">>>>, <<n_e, <<"%", "n", "%">>>>}
MatchQuickInit  == MInit(MatchQuickNames)

MatchFullNames  == MNames({"a", "b", "/", "*", "%", "n"}, 3) \cup MNames({"a", "/"}, 5)
MatchFullQ      == MQueries({"a", "b", "/", "*", "%", "n"}, 3) \cup MQueries({"a", "/", "*", "%"}, 4)
MatchFullInit   == MInit(MatchFullNames)

\* names a store may be unable to hold
n_u == <<"u">>   n_au == <<"a", "/", "u">>
OddCreate == {n_u, n_a, n_au, n_Sa}
OddName   == {n_u, n_a, n_Sa}
OddRename == {<<n_a, n_u>>, <<n_u, n_a>>, <<n_Sa, n_b>>, <<n_b, n_Sa>>, <<n_b, n_a>>}
OddSub    == {n_u, n_Sa}
OddAppend == {n_Sa, n_au}
OddListQ  == {<<n_e, n_st>>, <<n_e, n_Sa>>, <<n_e, <<"/", "%">>>>}
OddLsubQ  == {<<n_e, n_st>>}
\* (the same, smaller: every allowed outcome, for the sanity properties)
OddRCreate == {n_u, n_a, n_au, n_Sa}
OddRName   == {n_a}
OddRRename == {<<n_a, n_u>>, <<n_b, n_Sa>>, <<n_a, n_b>>}
OddRSub    == {n_u}

\* a name with a leading delimiter
LeadInit  == {<<{n_Sa}, {n_Sa}>>, <<{n_Sa, n_a}, {}>>, <<{<<"/", "a", "/", "b">>}, {}>>}
LeadQ     == {<<n_e, n_st>>, <<n_e, n_pc>>, <<n_e, n_Sa>>, <<n_e, n_a>>, <<n_e, <<"/", "%">>>>, <<n_e, <<"/", "*">>>>, <<n_e, <<"%", "/", "%">>>>}
=============================================================================
