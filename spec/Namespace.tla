----------------------------- MODULE Namespace -----------------------------
(***************************************************************************)
(* RFC 3501 reference model of the mailbox namespace of ONE user (C11):    *)
(* CREATE DELETE RENAME SUBSCRIBE UNSUBSCRIBE LIST LSUB STATUS SELECT      *)
(* APPEND over a set of names.                                             *)
(*                                                                         *)
(* Names and patterns are sequences of TOKENS (strings):                   *)
(*   "/"  the hierarchy delimiter         "*" "%"  the two wildcards (in a *)
(*   "I"  the string INBOX                 pattern; ordinary characters in *)
(*   "i"  a case variant of INBOX          a NAME)                         *)
(*   "n"  a newline character             "&"  only in (garbled) output    *)
(*   anything else: an ordinary letter, concretised by the harness (plain  *)
(*   letters, with space / quote / backslash / non-ASCII / ...).           *)
(*                                                                         *)
(* Every command is total: Outcomes(c) is the SET of results RFC 3501      *)
(* allows in the current state (latitude = several outcomes, each tagged   *)
(* with the latitude it uses), plus - only for d \in Dev - the outcomes of *)
(* the named deviations d of the tree under test (r.dev = {d}).            *)
(*   NextRFC  : any allowed outcome      (sanity properties, trace check)  *)
(*   NextAsIs : the one outcome pymap is believed to produce (a selection  *)
(*              FROM Outcomes, so a refinement by construction); this is   *)
(*              the deterministic graph that is replayed on the server.    *)
(* `last` is the abstract result of the last command, `probe` what         *)
(* LIST "" * and LSUB "" * may answer in the current state (derived).      *)
(* Commands are issued only when last = Null; Forget resets it, so that    *)
(* the dumped graph has |core| * |commands| result nodes, not the square.  *)
(***************************************************************************)
EXTENDS Naturals, Sequences, FiniteSets, TLC

CONSTANTS CreateArgs,   \* names given to CREATE
          NameArgs,     \* names given to DELETE STATUS SELECT
          AppendArgs,   \* names given to APPEND
          SubArgs,      \* names given to SUBSCRIBE UNSUBSCRIBE
          RenameArgs,   \* pairs <<from, to>>
          ListQ, LsubQ, \* pairs <<reference, pattern>>
          InitSets,     \* set of <<set of names that exist, set of subscribed names>>
          MaxMsgs,      \* APPEND is not issued to a mailbox holding MaxMsgs
          MaxLen,       \* RENAME is not issued when it would build a longer name
          Dev           \* deviations switched on

VARIABLES mbx,          \* [existing name -> number of messages]
          sub,          \* set of subscribed names
          last,         \* Null or [cmd, r]
          probe         \* derived: allowed answers to LIST "" * / LSUB "" *

vars == <<mbx, sub, last, probe>>

SEP   == "/"
Inbox == <<"I">>
Null  == [cmd |-> <<"none">>, r |-> [ok |-> TRUE, dev |-> {}, tag |-> {}]]

AllDev == {"StarSkipsNewline", "EndAnchorBeforeTrailingNewline",
           "NewlineEncodedAsAmpersand", "CreateKeepsTrailingDelimiter",
           "RenameInboxMovesInferiors", "LsubOmitsMissingSubscribed",
           "LeadingDelimiterDropped"}

Norm(a) == IF a = <<"i">> THEN Inbox ELSE a
Range(s) == {s[k] : k \in 1..Len(s)}
Front(s) == SubSeq(s, 1, Len(s) - 1)
IsPrefix(p, n) == Len(p) <= Len(n) /\ SubSeq(n, 1, Len(p)) = p
Inferior(n, f) == IsPrefix(f \o <<SEP>>, n)            \* n strictly below f
\* the hierarchy levels above n ("a" and "a/b" for "a/b/c")
Levels(n)  == {SubSeq(n, 1, k - 1) : k \in {j \in 2..Len(n) : n[j] = SEP}}
\* levels of hierarchy that are not themselves in E (listed with \Noselect)
Implied(E) == UNION {Levels(n) : n \in E} \ E

---------------------------------------------------------------------------
(* The RFC 3501 section 6.3.8 matcher.  D: matcher deviations in force.    *)

RECURSIVE MatchX(_, _, _)
MatchX(p, n, D) ==
  IF p = <<>>
  THEN n = <<>> \/ ("EndAnchorBeforeTrailingNewline" \in D /\ n = <<"n">>)
  ELSE LET h == Head(p)  t == Tail(p) IN
       IF h = "*"
       THEN \/ MatchX(t, n, D)
            \/ /\ n # <<>>
               /\ ~("StarSkipsNewline" \in D /\ Head(n) = "n")
               /\ MatchX(p, Tail(n), D)
       ELSE IF h = "%"
       THEN \/ MatchX(t, n, D)
            \/ n # <<>> /\ Head(n) # SEP /\ MatchX(p, Tail(n), D)
       ELSE n # <<>> /\ Head(n) = h /\ MatchX(t, Tail(n), D)

Match(p, n) == MatchX(p, n, {})

Fold(p) == [k \in 1..Len(p) |-> IF p[k] = "i" THEN "I" ELSE p[k]]

\* how a name is written in a LIST/LSUB response
Garble(n, D) ==
  IF "NewlineEncodedAsAmpersand" \in D
  THEN [k \in 1..Len(n) |-> IF n[k] = "n" THEN "&" ELSE n[k]] ELSE n

\* interpretations of <reference, pattern> the RFC leaves to the server;
\* the first one (plain concatenation) is what pymap does
Canons(ref, pat) ==
  {<<ref \o pat, {}>>}
  \cup (IF ref # <<>> /\ pat # <<>> /\ pat[1] = SEP
        THEN {<<pat, {"refIgnored"}>>} ELSE {})
  \cup (IF ref # <<>> /\ ref[Len(ref)] # SEP /\ pat # <<>> /\ pat[1] # SEP
        THEN {<<ref \o <<SEP>> \o pat, {"refDelimited"}>>} ELSE {})

ListDevs == {"StarSkipsNewline", "EndAnchorBeforeTrailingNewline",
             "NewlineEncodedAsAmpersand", "LeadingDelimiterDropped"}

R0(ok, tag, dev) == [ok |-> ok, tag |-> tag, dev |-> dev,
                     fresh |-> {}, gone |-> {}, moved |-> {}, app |-> {}]

\* E0: the names listed (mailboxes, or subscriptions); X0: the names that
\* exist as mailboxes; lsub: BOOLEAN.  Result: the names that must / may be
\* returned, those that must / must not carry \Noselect, and `exact`, the
\* answer when everything optional is returned.
ListVariant(E0, X0, lsub, canon, ctag, D) ==
  LET lead == "LeadingDelimiterDropped" \in D
      \* deviation: a leading delimiter is lost (the tree is keyed by the parts
      \* of the name and the empty first part is not joined back)
      Strip(n) == IF lead /\ n[1] = SEP THEN Tail(n) ELSE n
      E    == {Strip(n) : n \in E0}
      X    == {Strip(n) : n \in X0}
      \* the level above "/a" is the root, whose name is empty: a server may
      \* list it (\Noselect); the deviation lists it like any other level
      root == IF \E n \in E0 : n[1] = SEP THEN {<<>>} ELSE {}
      impl == (Implied(E) \cup (IF lead THEN root ELSE {})) \ E
      M(n) == MatchX(canon, n, D)
      ex   == {n \in E : M(n)}
      imp  == {n \in impl : M(n)}
      optr == IF lead THEN {} ELSE {n \in root : M(n)}
      pend == canon[Len(canon)] = "%"
      \* INBOX: returned case-insensitively / always subscribed: optional
      inb  == IF MatchX(Fold(canon), Inbox, D) /\ Inbox \notin ex
              THEN {Inbox} ELSE {}
      G(S) == {Garble(n, D) : n \in S}
      must == G(ex \cup (IF pend THEN imp ELSE {}))
      may  == G(imp \cup inb \cup optr)
  IN R0(TRUE, ctag, D) @@
     [one |-> FALSE, must |-> must, may |-> may, exact |-> must \cup may,
      sel   |-> G((IF lsub THEN E \cap X ELSE E) \cap (ex \cup inb)),
      nosel |-> G(((impl \ (IF lsub THEN {Inbox} ELSE X)) \cap imp) \cup optr)]

HasTok(S, tok) == \E n \in S : tok \in Range(n)

\* all allowed answers to LIST/LSUB ref pat in the state <<m, s>>
ListVariants(m, s, lsub, ref, pat) ==
  LET X == DOMAIN m
      EI == IF lsub THEN s ELSE X
      \* deviations that can make a difference here
      dl == (Dev \cap ListDevs)
            \ ((IF HasTok(EI, "n") THEN {} ELSE {"StarSkipsNewline",
                    "EndAnchorBeforeTrailingNewline", "NewlineEncodedAsAmpersand"})
               \cup (IF \E n \in EI : n[1] = SEP THEN {}
                     ELSE {"LeadingDelimiterDropped"}))
      dm == IF lsub /\ "LsubOmitsMissingSubscribed" \in Dev /\ ~(s \subseteq X)
            THEN {"LsubOmitsMissingSubscribed"} ELSE {}
  IN IF pat = <<>>
     THEN \* the root query: one \Noselect entry naming (a prefix of) the reference
          {R0(TRUE, {}, {}) @@
           [one |-> TRUE, must |-> {}, exact |-> {<<>>},
            may |-> {SubSeq(ref, 1, k) : k \in 0..Len(ref)},
            sel |-> {}, nosel |-> {SubSeq(ref, 1, k) : k \in 0..Len(ref)}]}
     ELSE {ListVariant(IF "LsubOmitsMissingSubscribed" \in D THEN EI \cap X ELSE EI,
                       X, lsub, c[1], c[2], D)
           : c \in Canons(ref, pat), D \in SUBSET (dl \cup dm)}

\* the answer pymap gives: every applicable deviation, plain concatenation,
\* everything optional is returned
\* (r.dev: the SMALLEST set of deviations that explains this answer)
SameAnswer(v, w) == /\ v.tag = w.tag /\ v.one = w.one /\ v.must = w.must
                    /\ v.may = w.may /\ v.sel = w.sel /\ v.nosel = w.nosel
ListAsIs(m, s, lsub, ref, pat) ==
  LET vs == ListVariants(m, s, lsub, ref, pat)
      v  == CHOOSE v \in vs : v.tag = {} /\ \A w \in vs : w.dev \subseteq v.dev
      eq == {w \in vs : SameAnswer(v, w)}
  IN CHOOSE w \in eq : \A u \in eq : Cardinality(w.dev) <= Cardinality(u.dev)

Probe(m, s) == [list |-> ListAsIs(m, s, FALSE, <<>>, <<"*">>),
                lsub |-> ListAsIs(m, s, TRUE, <<>>, <<"*">>)]

---------------------------------------------------------------------------
(* Outcomes of the commands in the current state: sets of [r, m, s].       *)

Out(r, m, s) == [r |-> r, m |-> m, s |-> s]
Same(r)      == Out(r, mbx, sub)
No(tag)      == Same(R0(FALSE, tag, {}))

\* CREATE of a name without trailing delimiter.  "parents": the server also
\* created the missing superior names (SHOULD, RFC 3501 6.3.3)
CreatePlain(n) ==
  IF n = Inbox \/ n \in DOMAIN mbx THEN {No({})}
  ELSE {LET new == {n} \cup P IN
        Out([R0(TRUE, IF P = {} THEN {} ELSE {"parents"}, {}) EXCEPT !.fresh = new],
            [x \in DOMAIN mbx \cup new |-> IF x \in new THEN 0 ELSE mbx[x]], sub)
        : P \in {{}, Levels(n) \ DOMAIN mbx}}

CreateOutcomes(a) ==
  IF Len(a) > 1 /\ a[Len(a)] = SEP
  THEN \* "the name created is without the trailing hierarchy delimiter"
       LET base == Norm(Front(a))
           d    == "CreateKeepsTrailingDelimiter"
       IN CreatePlain(base)
          \cup (IF base \in DOMAIN mbx THEN {Same(R0(TRUE, {"declared"}, {}))} ELSE {})
          \cup (IF d \notin Dev THEN {}
                ELSE IF a \in DOMAIN mbx THEN {Same(R0(FALSE, {}, {d}))}
                ELSE {Out([R0(TRUE, {}, {d}) EXCEPT !.fresh = {a}],
                          [x \in DOMAIN mbx \cup {a} |-> IF x = a THEN 0 ELSE mbx[x]],
                          sub)})
  ELSE CreatePlain(Norm(a))

SameEffect(o, p) == o.r.ok = p.r.ok /\ o.m = p.m /\ o.s = p.s
\* prefer an allowed outcome with the same effect to a deviation
Undeviate(o, outs) ==
  LET eq == {p \in outs : p.r.dev = {} /\ SameEffect(o, p)}
  IN IF eq = {} THEN o
     ELSE CHOOSE p \in eq : \A q \in eq : Cardinality(p.r.tag) <= Cardinality(q.r.tag)

CreateAsIs(a) ==
  LET outs == CreateOutcomes(a) IN
  IF \E o \in outs : o.r.dev # {}
  THEN Undeviate(CHOOSE o \in outs : o.r.dev # {}, outs)
  ELSE CHOOSE o \in outs : o.r.tag = {}

DeleteOutcomes(a) ==
  LET n == Norm(a) IN
  IF n = Inbox \/ n \notin DOMAIN mbx THEN {No({})}
  ELSE {Out([R0(TRUE, {}, {}) EXCEPT !.gone = {n}],
            [x \in DOMAIN mbx \ {n} |-> mbx[x]], sub)}

DeleteAsIs(a) == CHOOSE o \in DeleteOutcomes(a) : TRUE

\* RENAME.  Inferiors of INBOX "are unaffected by a rename of INBOX".
\* Latitude: refusing when the source is only a \Noselect level of hierarchy
\* or the target name is one ("refuse"); moving subscriptions along
\* ("submoved").  Not enabled (empty set) if a name longer than MaxLen
\* would be built.
RenameOutcomes(a, b) ==
  LET f == Norm(a)  t == Norm(b)
      E == DOMAIN mbx
      infs == {n \in E : Inferior(n, f)}
      Mv(S) == {<<n, t \o SubSeq(n, Len(f) + 1, Len(n))>> : n \in S}
      ideal == Mv(({f} \cap E) \cup (IF f = Inbox THEN {} ELSE infs))
      devmv == Mv(({f} \cap E) \cup infs)
      Conflict(mv) == \E x \in mv : x[2] \in E
      Ok(mv, tag, dev, s2) ==
        LET src == {x[1] : x \in mv}  tgt == {x[2] : x \in mv}
            fr  == IF f = Inbox THEN {Inbox} ELSE {}
        IN Out([R0(TRUE, tag, dev) EXCEPT !.moved = mv, !.fresh = fr],
               [x \in ((E \ src) \cup tgt \cup fr) |->
                  IF x \in tgt THEN mbx[(CHOOSE y \in mv : y[2] = x)[1]]
                  ELSE IF x \in fr THEN 0 ELSE mbx[x]],
               s2)
      SubMoved(mv) == (sub \ {x[1] : x \in mv})
                      \cup {x[2] : x \in {y \in mv : y[1] \in sub}}
      OkSet(mv, dev) ==
        {Ok(mv, {}, dev, sub)}
        \cup (IF SubMoved(mv) # sub THEN {Ok(mv, {"submoved"}, dev, SubMoved(mv))} ELSE {})
      d == "RenameInboxMovesInferiors"
  IN IF \E x \in devmv : Len(x[2]) > MaxLen THEN {}
     ELSE IF t = Inbox THEN {No({})}
     ELSE IF f \notin E /\ infs = {} THEN {No({})}
     ELSE IF t \in E THEN {No({})}
     ELSE (IF Conflict(ideal) THEN {No({})}
           ELSE OkSet(ideal, {})
                \cup (IF f \notin E \/ t \in Implied(E) THEN {No({"refuse"})} ELSE {}))
          \cup (IF d \in Dev /\ f = Inbox /\ infs # {} /\ ~Conflict(devmv)
                THEN OkSet(devmv, {d}) ELSE {})

RenameAsIs(a, b) ==
  LET outs == RenameOutcomes(a, b)
      t == Norm(b)
  IN IF (\A o \in outs : ~o.r.ok) \/ t \in Implied(DOMAIN mbx)
     THEN CHOOSE o \in outs : ~o.r.ok
     ELSE IF \E o \in outs : o.r.dev # {}
     THEN CHOOSE o \in outs : o.r.dev # {} /\ o.r.tag = {}
     ELSE CHOOSE o \in outs : o.r.ok /\ o.r.tag = {}

\* "A server MAY validate the mailbox argument to SUBSCRIBE"
SubscribeOutcomes(a) ==
  LET n == Norm(a) IN
  {Out(R0(TRUE, {}, {}), mbx, sub \cup {n})}
  \cup (IF n \notin DOMAIN mbx THEN {No({"refuse"})} ELSE {})

SubscribeAsIs(a) == CHOOSE o \in SubscribeOutcomes(a) : o.r.ok

UnsubscribeOutcomes(a) ==
  LET n == Norm(a) IN
  {Out(R0(TRUE, {}, {}), mbx, sub \ {n})}
  \cup (IF n \notin sub THEN {No({"refuse"})} ELSE {})

UnsubscribeAsIs(a) == CHOOSE o \in UnsubscribeOutcomes(a) : o.r.ok

\* STATUS and SELECT (the harness selects, fetches all UIDs, closes)
QueryOutcomes(a) ==
  LET n == Norm(a) IN
  IF n \in DOMAIN mbx
  THEN {Same(R0(TRUE, {}, {}) @@ [n |-> mbx[n]])}
  ELSE {Same(R0(FALSE, {}, {}) @@ [n |-> 0])}

QueryAsIs(a) == CHOOSE o \in QueryOutcomes(a) : TRUE

\* not enabled on a full mailbox
AppendOutcomes(a) ==
  LET n == Norm(a) IN
  IF n \notin DOMAIN mbx THEN {No({})}
  ELSE IF mbx[n] >= MaxMsgs THEN {}
  ELSE {Out([R0(TRUE, {}, {}) EXCEPT !.app = {n}],
            [mbx EXCEPT ![n] = @ + 1], sub)}

AppendAsIs(a) == CHOOSE o \in AppendOutcomes(a) : TRUE

ListOutcomes(lsub, ref, pat) ==
  {Same(v) : v \in ListVariants(mbx, sub, lsub, ref, pat)}

ListOutAsIs(lsub, ref, pat) == Same(ListAsIs(mbx, sub, lsub, ref, pat))

---------------------------------------------------------------------------

Apply(c, o) == /\ last = Null
               /\ mbx' = o.m /\ sub' = o.s
               /\ last' = [cmd |-> c, r |-> o.r]
               /\ probe' = IF o.m = mbx /\ o.s = sub THEN probe ELSE Probe(o.m, o.s)

Forget == last # Null /\ last' = Null /\ UNCHANGED <<mbx, sub, probe>>

\* --- any allowed outcome
CreateR(a)      == \E o \in CreateOutcomes(a)      : Apply(<<"create", a>>, o)
DeleteR(a)      == \E o \in DeleteOutcomes(a)      : Apply(<<"delete", a>>, o)
RenameR(a, b)   == \E o \in RenameOutcomes(a, b)   : Apply(<<"rename", a, b>>, o)
SubscribeR(a)   == \E o \in SubscribeOutcomes(a)   : Apply(<<"subscribe", a>>, o)
UnsubscribeR(a) == \E o \in UnsubscribeOutcomes(a) : Apply(<<"unsubscribe", a>>, o)
StatusR(a)      == \E o \in QueryOutcomes(a)       : Apply(<<"status", a>>, o)
SelectR(a)      == \E o \in QueryOutcomes(a)       : Apply(<<"select", a>>, o)
AppendR(a)      == \E o \in AppendOutcomes(a)      : Apply(<<"append", a>>, o)
ListR(ref, pat) == \E o \in ListOutcomes(FALSE, ref, pat) : Apply(<<"list", ref, pat>>, o)
LsubR(ref, pat) == \E o \in ListOutcomes(TRUE, ref, pat)  : Apply(<<"lsub", ref, pat>>, o)

NextRFC ==
  \/ Forget
  \/ \E a \in CreateArgs : CreateR(a)
  \/ \E a \in NameArgs : DeleteR(a) \/ StatusR(a) \/ SelectR(a)
  \/ \E p \in RenameArgs : RenameR(p[1], p[2])
  \/ \E a \in SubArgs : SubscribeR(a) \/ UnsubscribeR(a)
  \/ \E a \in AppendArgs : AppendR(a)
  \/ \E q \in ListQ : ListR(q[1], q[2])
  \/ \E q \in LsubQ : LsubR(q[1], q[2])

\* --- the outcome pymap is believed to produce (deterministic)
Create(a)      == Apply(<<"create", a>>, CreateAsIs(a))
Delete(a)      == Apply(<<"delete", a>>, DeleteAsIs(a))
Rename(a, b)   == RenameOutcomes(a, b) # {} /\ Apply(<<"rename", a, b>>, RenameAsIs(a, b))
Subscribe(a)   == Apply(<<"subscribe", a>>, SubscribeAsIs(a))
Unsubscribe(a) == Apply(<<"unsubscribe", a>>, UnsubscribeAsIs(a))
Status(a)      == Apply(<<"status", a>>, QueryAsIs(a))
Select(a)      == Apply(<<"select", a>>, QueryAsIs(a))
AppendMsg(a)   == AppendOutcomes(a) # {} /\ Apply(<<"append", a>>, AppendAsIs(a))
List(ref, pat) == Apply(<<"list", ref, pat>>, ListOutAsIs(FALSE, ref, pat))
Lsub(ref, pat) == Apply(<<"lsub", ref, pat>>, ListOutAsIs(TRUE, ref, pat))

NextAsIs ==
  \/ Forget
  \/ \E a \in CreateArgs : Create(a)
  \/ \E a \in NameArgs : Delete(a) \/ Status(a) \/ Select(a)
  \/ \E p \in RenameArgs : Rename(p[1], p[2])
  \/ \E a \in SubArgs : Subscribe(a) \/ Unsubscribe(a)
  \/ \E a \in AppendArgs : AppendMsg(a)
  \/ \E q \in ListQ : List(q[1], q[2])
  \/ \E q \in LsubQ : Lsub(q[1], q[2])

Init == /\ \E i \in InitSets :
             /\ mbx = [n \in i[1] \cup {Inbox} |-> 0]
             /\ sub = i[2]
        /\ last = Null
        /\ probe = Probe(mbx, sub)

SpecRFC  == Init /\ [][NextRFC]_vars
SpecAsIs == Init /\ [][NextAsIs]_vars

---------------------------------------------------------------------------
(* Sanity of the model itself (checked with Dev = {} on NextRFC).          *)

TypeOK == /\ Inbox \in DOMAIN mbx
          /\ \A n \in DOMAIN mbx : mbx[n] \in 0..MaxMsgs /\ n # <<>> /\ n # <<"i">>
          /\ <<"i">> \notin sub
          /\ last.r.ok \in BOOLEAN

\* '*' matches every name, '%' exactly the names of the top level; a pattern
\* without wildcards only itself; the probe lists exactly the mailboxes
MatcherSane ==
  /\ \A n \in DOMAIN mbx :
        /\ Match(<<"*">>, n)
        /\ Match(<<"%">>, n) <=> SEP \notin Range(n)
        /\ \A k \in DOMAIN mbx : ({"*", "%"} \cap Range(k) = {}) => (Match(k, n) <=> k = n)
  /\ Dev = {} => /\ probe.list.must = DOMAIN mbx
                 /\ probe.lsub.must = sub
                 /\ probe.list.may \cap DOMAIN mbx = {}

Cmd == last'.cmd
Res == last'.r
Src == {x[1] : x \in Res.moved}
Tgt == {x[2] : x \in Res.moved}

Step(P) == last = Null /\ last' # Null => P

\* a command answered NO changes nothing; queries change nothing
FailChangesNothing ==
  [][Step((~Res.ok \/ Cmd[1] \in {"status", "select", "list", "lsub"})
          => UNCHANGED <<mbx, sub>>)]_vars

\* INBOX is never created, deleted or overwritten: it is replaced by a fresh
\* empty mailbox only when it was itself renamed away
InboxProtected ==
  [][Step(/\ Inbox \notin Tgt /\ Inbox \notin Res.gone
          /\ Inbox \in Res.fresh => Cmd[1] = "rename" /\ Norm(Cmd[2]) = Inbox /\ mbx'[Inbox] = 0
          /\ (Inbox \notin Res.fresh /\ Inbox \notin Res.app) => mbx'[Inbox] = mbx[Inbox])]_vars

\* RENAME carries every moved mailbox unchanged to its new name, touches
\* nothing else, and never lands on an existing name
RenamePreserves ==
  [][Step(Cmd[1] = "rename" /\ Res.ok =>
          /\ Res.moved # {}
          /\ \A x \in Res.moved : x[1] \in DOMAIN mbx /\ x[2] \notin DOMAIN mbx
                                  /\ mbx'[x[2]] = mbx[x[1]]
          /\ DOMAIN mbx' = (DOMAIN mbx \ Src) \cup Tgt \cup Res.fresh
          /\ \A n \in DOMAIN mbx \ (Src \cup Res.fresh) : mbx'[n] = mbx[n])]_vars

\* the bookkeeping the harness uses to follow mailbox identities is exact
EffectsExact ==
  [][Step(/\ DOMAIN mbx' = ((DOMAIN mbx \ (Src \cup Res.gone)) \cup Tgt \cup Res.fresh)
          /\ \A n \in Res.fresh : mbx'[n] = 0
          /\ \A n \in Res.app : mbx'[n] = mbx[n] + 1
          /\ \A n \in DOMAIN mbx' \ (Tgt \cup Res.fresh \cup Res.app) : mbx'[n] = mbx[n]
          /\ Cmd[1] = "delete" /\ Res.ok => Res.gone = {Norm(Cmd[2])}
          /\ Cmd[1] # "delete" => Res.gone = {})]_vars

\* the believed behaviour of pymap is one of the allowed outcomes
RECURSIVE SetSum(_, _)
SetSum(f, S) == IF S = {} THEN 0 ELSE LET x == CHOOSE x \in S : TRUE
                                      IN f[x] + SetSum(f, S \ {x})
Conservation ==
  [][Step(Cmd[1] # "delete" => SetSum(mbx', DOMAIN mbx') >= SetSum(mbx, DOMAIN mbx))]_vars

---------------------------------------------------------------------------
(* Argument sets used by the configurations.                               *)

Seqs(A, L)  == UNION {[1..k -> A] : k \in 1..L}
\* no leading / trailing / doubled delimiter
WellFormed(n) == /\ n[1] # SEP /\ n[Len(n)] # SEP
                 /\ \A k \in 1..(Len(n) - 1) : ~(n[k] = SEP /\ n[k + 1] = SEP)
Pairs(S) == {<<x, y>> : x \in S, y \in S}
None == {<<{}, {}>>}

n_a == <<"a">>    n_b == <<"b">>    n_ab == <<"a", "/", "b">>    n_bb == <<"b", "/", "b">>
n_aS == <<"a", "/">>
n_Ia == <<"I", "/", "a">>   n_ba == <<"b", "/", "a">>   n_i == <<"i">>
n_abb == <<"a", "/", "b", "/", "b">>
n_an == <<"a", "n">>   n_anb == <<"a", "n", "b">>   n_Sa == <<"/", "a">>
n_st == <<"*">>   n_pc == <<"%">>   n_e == <<>>

\* hierarchy: parent / inferior / rename with inferiors / implied parents /
\* trailing delimiter
HierNames   == {n_a, n_b, n_ab, n_bb}
HierCreate  == {n_a, n_ab, n_b, n_aS, Inbox}
HierName    == {n_a, n_ab, n_b, n_bb, Inbox}
HierRename  == {<<n_a, n_b>>, <<n_b, n_a>>, <<n_ab, n_b>>, <<n_a, n_ab>>, <<n_ab, n_a>>, <<n_b, Inbox>>, <<n_a, n_a>>, <<Inbox, n_b>>}
HierSub     == {n_a, n_ab}
HierAppend  == {n_a, n_ab}
HierListQ   == {<<n_e, n_pc>>, <<n_aS, n_pc>>, <<n_e, <<"a", "/", "%">>>>, <<n_a, n_st>>, <<n_e, n_e>>, <<n_e, <<"%", "/", "%">>>>}
HierLsubQ   == {<<n_e, n_pc>>, <<n_e, <<"a", "/", "*">>>>}

\* the same, smaller (quick tier)
HierQCreate == {n_a, n_ab, n_b}
HierQName   == {n_a, n_ab, n_b, n_bb}
HierQRename == {<<n_a, n_b>>, <<n_b, n_a>>, <<n_ab, n_b>>, <<n_a, n_ab>>, <<n_b, Inbox>>, <<n_a, n_a>>}
HierQSub    == {n_ab, n_b}
HierQAppend == {n_a, n_ab}

\* trailing delimiter in CREATE
TrailCreate == {n_a, n_aS, n_ab}
TrailName   == {n_a}
TrailListQ  == {<<n_e, n_pc>>, <<n_e, <<"a", "/", "%">>>>}

\* INBOX: case variants, INBOX as a hierarchy parent, renaming INBOX
InbCreate   == {Inbox, n_i, n_Ia, n_a, n_ba}
InbName     == {Inbox, n_i, n_Ia, n_a, n_ba}
InbRename   == {<<Inbox, n_a>>, <<n_i, n_b>>, <<n_a, Inbox>>, <<n_a, n_i>>, <<n_Ia, n_a>>, <<n_b, n_a>>, <<n_a, n_Ia>>, <<Inbox, Inbox>>}
InbSub      == {Inbox, n_i, n_Ia}
InbAppend   == {Inbox, n_i, n_Ia, n_a}
InbListQ    == {<<n_e, Inbox>>, <<n_e, n_i>>, <<n_e, n_pc>>, <<Inbox, <<"/", "%">>>>, <<n_e, <<"I", "/", "*">>>>, <<n_e, <<"I", "*">>>>}
InbLsubQ    == {<<n_e, n_pc>>, <<n_e, n_i>>}

\* the same, smaller (quick tier)
InbQCreate  == {n_i, n_Ia, n_a}
InbQName    == {Inbox, n_i, n_Ia, n_a}
InbQRename  == {<<Inbox, n_a>>, <<n_i, n_b>>, <<n_a, Inbox>>, <<n_b, n_i>>}
InbQSub     == {n_i}
InbQAppend  == {n_i}

\* bigger universe for simulation
SimNames    == {n_a, n_b, n_ab, n_bb, n_ba, n_abb, n_Ia, n_an, n_anb, <<"a", "*">>, <<"a", "%">>, <<"a", "b">>}
SimCreate   == SimNames \cup {Inbox, n_i, n_aS, <<"b", "/">>}
SimName     == SimNames \cup {Inbox, n_i}
SimRename   == {<<n_a, n_b>>, <<n_b, n_a>>, <<n_ab, n_ba>>, <<n_ba, n_ab>>, <<n_ab, n_a>>, <<n_a, n_ab>>,
                <<Inbox, n_a>>, <<Inbox, n_b>>, <<n_i, n_an>>, <<n_a, Inbox>>, <<n_b, n_i>>,
                <<n_an, n_anb>>, <<n_anb, n_b>>, <<<<"a", "*">>, <<"a", "%">>>>, <<<<"a", "%">>, n_b>>,
                <<n_b, n_bb>>, <<n_bb, n_b>>, <<n_a, n_a>>, <<n_Ia, n_a>>, <<n_b, n_Ia>>,
                <<n_b, <<"a", "b">>>>, <<n_abb, n_a>>, <<n_ab, n_b>>}
SimListQ    == {<<n_e, n_pc>>, <<n_e, n_st>>, <<n_aS, n_pc>>, <<n_a, n_st>>, <<n_e, <<"a", "*">>>>, <<n_e, <<"a", "%">>>>,
                <<n_e, <<"%", "/", "%">>>>, <<n_e, <<"*", "b">>>>, <<n_e, n_i>>, <<n_e, n_e>>, <<n_aS, n_e>>,
                <<n_e, <<"a", "/", "*">>>>, <<n_e, <<"%", "b">>>>, <<Inbox, <<"/", "%">>>>, <<n_e, n_a>>, <<n_e, n_an>>}

\* the matcher: all well-formed names over an alphabet that start with the same
\* token exist at once (and are subscribed), and each hierarchical name alone
\* (implied parents); every pattern over the pattern alphabet
\* (a run of control characters is a different story for the encoder: C18)
NoNLRun(n)     == \A k \in 1..(Len(n) - 1) : ~(n[k] = "n" /\ n[k + 1] = "n")
MNames(A, L)   == {n \in Seqs(A, L) : WellFormed(n) /\ NoNLRun(n)}
MQueries(A, L) == {<<n_e, p>> : p \in Seqs(A, L)}
                  \cup {<<r, p>> : r \in {n_a, n_aS}, p \in Seqs(A, L - 1)}
\* (grouped by first token: superiors and inferiors share it)
MInit(S)  == {<<G, G>> : G \in {{n \in S : n[1] = t} : t \in {x[1] : x \in S}}}
             \cup {<<{n}, {n}>> : n \in {x \in S : SEP \in Range(x)}}

MatchQuickNames == MNames({"a", "b", "/", "*", "n"}, 3)
MatchQuickQ     == MQueries({"a", "b", "/", "*", "%"}, 3) \cup {<<n_e, <<"a", "n">>>>, <<n_e, <<"a", "n", "*">>>>, <<n_e, <<"*", "n">>>>, <<n_e, <<"%", "n", "%">>>>}
MatchQuickInit  == MInit(MatchQuickNames)

MatchFullNames  == MNames({"a", "b", "/", "*", "%", "n"}, 3) \cup MNames({"a", "/"}, 5)
MatchFullQ      == MQueries({"a", "b", "/", "*", "%", "n"}, 3) \cup MQueries({"a", "/", "*", "%"}, 4)
MatchFullInit   == MInit(MatchFullNames)

\* a name with a leading delimiter
LeadInit  == {<<{n_Sa}, {n_Sa}>>, <<{n_Sa, n_a}, {}>>, <<{<<"/", "a", "/", "b">>}, {}>>}
LeadQ     == {<<n_e, n_st>>, <<n_e, n_pc>>, <<n_e, n_Sa>>, <<n_e, n_a>>, <<n_e, <<"/", "%">>>>, <<n_e, <<"/", "*">>>>, <<n_e, <<"%", "/", "%">>>>}
=============================================================================
