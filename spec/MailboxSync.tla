---------------------------- MODULE MailboxSync ----------------------------
(***************************************************************************)
(* Implementation-shaped model of pymap's dict backend mailbox, the        *)
(* selected-mailbox synchronisation (pymap/selected.py), the session layer *)
(* (pymap/backend/session.py) and the response assembly                    *)
(* (ConnectionState.do_command + CommandResponse.add_untagged), for ONE    *)
(* mailbox (INBOX) shared by several sessions plus a destination mailbox   *)
(* (Box) that nobody selects.                                              *)
(*                                                                         *)
(* What is modelled as the code does it:                                   *)
(*  - the change log is one latest record per UID (_ModSequenceMapping:    *)
(*    _set removes the uid from its previous record) and find_updated uses *)
(*    bisect_left, i.e. ">=";                                              *)
(*  - update_selected: _update (new/changed messages) then _remove with    *)
(*    pending = hide_expunged; _pending_remove applied by the next         *)
(*    non-hidden sync;                                                     *)
(*  - fork/_compare against the _Frozen of the previous fork: EXPUNGE in   *)
(*    descending order of the PREVIOUS numbering, EXISTS, RECENT, FETCH    *)
(*    for new/changed flag keys minus the silenced ones, with the LIVE     *)
(*    flags (the dict backend's cache aliases the stored message objects); *)
(*  - the diff is appended after the command's own FETCH responses and     *)
(*    merged into them by sequence number.                                 *)
(*                                                                         *)
(* Deviations of the pinned tree from the intended design are named and    *)
(* enabled only when listed in Devs:                                       *)
(*   "ExpOverwrite"  update() of an already expunged message logs an       *)
(*                   `update` record that replaces its `expunge` record    *)
(*   "SilenceLive"   silence() computes the silenced key from the LIVE     *)
(*                   flags instead of the session's synced snapshot        *)
(*   "MergeAcross"   the diff's FETCH is merged into the command's own     *)
(*                   FETCH of the same number although an EXPUNGE of the   *)
(*                   diff renumbers in between                             *)
(*   "MoveIgnoresRO" MOVE from a read-only selection removes the message   *)
(*   "CloseRONo"     CLOSE of a read-only selection answers NO and stays   *)
(*                   selected                                              *)
(*   "RecentToOwnRO" APPEND/COPY into the mailbox the caller EXAMINEs      *)
(*                   gives the caller's read-only selection the \Recent    *)
(***************************************************************************)
EXTENDS Naturals, Sequences, FiniteSets, TLC, SequencesExt

CONSTANTS Sess,        \* sessions
          MaxUid,      \* UIDs 1..MaxUid can ever be assigned in INBOX
          InitMsgs,    \* messages initially in INBOX (UIDs 1..InitMsgs), not recent
          Flags,       \* modelled permanent flags, e.g. {"D", "S"}; "D" is \Deleted, "S" \Seen
          MaxCmds,     \* total number of commands
          Menu,        \* set of command kinds enabled
          Devs

Uid == 1..MaxUid
NoRec == [seq |-> 0, kind |-> "none"]

VARIABLES
  ex,       \* UIDs in the store (MailboxData._messages)
  fl,       \* fl[u]: flags of the message OBJECT of u (kept after expunge: objects live on in caches)
  rbit,     \* rbit[u]: stored recent bit (Message.recent)
  maxuid,   \* _max_uid
  modhi, modrec,           \* _ModSequenceMapping: highest, uid -> latest record
  box,      \* number of messages in Box (destination of COPY/MOVE)
  sel,      \* sel[s] \in {"none", "rw", "ro"}
  view,     \* view[s]: UIDs the session's client has been told (SynchronizedMessages._uids)
  fkey,     \* fkey[s][u]: flag snapshot at the last sync (_flags_key_map)
  pend,     \* _pending_remove
  prevU, prevF, prevR,     \* _Frozen at the last fork: uids, flag keys, recent
  smod,     \* selected.mod_sequence (0..), -1 = None
  srec,     \* SessionFlags._recent
  out,      \* out[s]: the response to the last command of s (history, overwritten)
  ncmd

vars == <<ex, fl, rbit, maxuid, modhi, modrec, box, sel, view, fkey, pend,
          prevU, prevF, prevR, smod, srec, out, ncmd>>

---------------------------------------------------------------------------
Pos(S, u) == Cardinality({x \in S : x <= u})          \* sequence number of u in sorted S
Desc(S) == Reverse(SetToSortSeq(S, <))                 \* descending
Asc(S) == SetToSortSeq(S, <)


LogSet(rec, hi, us, kind) ==
  [u \in Uid |-> IF u \in us THEN [seq |-> hi + 1, kind |-> kind] ELSE rec[u]]

\* messages a sequence / uid set addresses in the session's view.  tgt = 0 is "1:*";
\* tgt = n is the single number n.
Addr(v, uidmode, tgt) ==
  IF tgt = 0 THEN v
  ELSE IF uidmode THEN {u \in v : u = tgt} ELSE {u \in v : Pos(v, u) = tgt}

Shown(s, u, recset) == fl[u] \cup (IF u \in recset THEN {"R"} ELSE {})

---------------------------------------------------------------------------
(* update_selected + fork + _compare + add_untagged, for the store as it is  *)
(* AFTER the command body: (ex2, fl2, rec2, hi2), the session's \Recent set   *)
(* srec2, own = the command's own FETCH responses (sequence of [n,u,f]),      *)
(* sil = silenced flag keys, hideNow = non-UID FETCH/STORE/SEARCH.            *)

Sync(s, ex2, fl2, rec2, hi2, sr, own, sil, hideNow, withUid, cond, extra) ==
  LET first == smod[s] = -1
      upd   == IF first THEN ex2
               ELSE {u \in Uid : rec2[u].kind = "upd" /\ rec2[u].seq >= smod[s]}
      expd  == IF first THEN {}
               ELSE {u \in Uid : rec2[u].kind = "exp" /\ rec2[u].seq >= smod[s]}
      added == upd \cap ex2
      nview == IF hideNow THEN view[s] \cup added
               ELSE (view[s] \cup added) \ (expd \cup pend[s])
      nfkey == [u \in Uid |-> IF u \in added THEN fl2[u] ELSE fkey[s][u]]
      npend == IF hideNow THEN pend[s] \cup expd ELSE {}
      nsrec == IF hideNow THEN sr[s] ELSE sr[s] \ expd
      arec  == nsrec \cap nview                       \* _Frozen.recent
      gone  == prevU[s] \ nview
      new   == nview \ prevU[s]
      chg   == {u \in nview : (u \in new \/ nfkey[u] # prevF[s][u]) /\ <<u, nfkey[u]>> \notin sil}
      told  == chg \cup (arec \ prevR[s])
      exps  == IF hideNow THEN <<>>
               ELSE [i \in 1..Cardinality(gone) |->
                       [k |-> "expunge", n |-> Pos(prevU[s], Desc(gone)[i]), u |-> 0, f |-> {}]]
      exi   == IF new # {} THEN <<[k |-> "exists", n |-> Cardinality(nview), u |-> 0, f |-> {}]>> ELSE <<>>
      rct   == IF Cardinality(arec) # Cardinality(prevR[s])
               THEN <<[k |-> "recent", n |-> Cardinality(arec), u |-> 0, f |-> {}]>> ELSE <<>>
      dfet  == [i \in 1..Cardinality(told) |->
                 LET u == Asc(told)[i] IN
                 [k |-> "fetch", n |-> Pos(nview, u), u |-> IF withUid THEN u ELSE 0,
                  f |-> fl2[u] \cup (IF u \in nsrec THEN {"R"} ELSE {})]]
      \* the command's own FETCH values are evaluated when the response is written, i.e. with the
      \* session's \Recent set AFTER this synchronisation (a message another session has expunged
      \* is no longer \Recent in a UID command's own answer)
      own0  == own
      ownRe == [i \in 1..Len(own0) |->
                 IF own0[i].k = "fetch" /\ own0[i].u # 0
                 THEN [own0[i] EXCEPT !.f = (@ \ {"R"}) \cup (IF own0[i].u \in nsrec THEN {"R"} ELSE {})]
                 ELSE own0[i]]
      \* add_untagged: a diff FETCH whose number equals an own FETCH's number is merged into it
      mergeOK == "MergeAcross" \in Devs \/ exps = <<>>
      ownNs == {own[i].n : i \in 1..Len(own)}
      ownM  == [i \in 1..Len(own) |->
                 IF mergeOK /\ \E j \in 1..Len(dfet) : dfet[j].n = own[i].n
                 THEN LET j == CHOOSE j \in 1..Len(dfet) : dfet[j].n = own[i].n
                      IN [ownRe[i] EXCEPT !.f = dfet[j].f,
                                        !.u = IF dfet[j].u # 0 THEN dfet[j].u ELSE ownRe[i].u]
                 ELSE ownRe[i]]
      dfetR == IF mergeOK THEN SelectSeq(dfet, LAMBDA r : r.n \notin ownNs) ELSE dfet
  IN /\ view'  = [view  EXCEPT ![s] = nview]
     /\ fkey'  = [fkey  EXCEPT ![s] = nfkey]
     /\ pend'  = [pend  EXCEPT ![s] = npend]
     /\ srec'  = [sr    EXCEPT ![s] = nsrec]
     /\ prevU' = [prevU EXCEPT ![s] = nview]
     /\ prevF' = [prevF EXCEPT ![s] = nfkey]
     /\ prevR' = [prevR EXCEPT ![s] = arec]
     /\ smod'  = [smod  EXCEPT ![s] = hi2]
     /\ out'   = [out EXCEPT ![s] = [cond |-> cond, un |-> extra \o ownM \o exps \o exi \o rct \o dfetR]]

NoSync(s, cond) == /\ UNCHANGED <<view, fkey, pend, srec, prevU, prevF, prevR, smod>>
                   /\ out' = [out EXCEPT ![s] = [cond |-> cond, un |-> <<>>]]

Count == ncmd < MaxCmds /\ ncmd' = ncmd + 1
StoreSame == UNCHANGED <<ex, fl, rbit, maxuid, modhi, modrec, box>>

---------------------------------------------------------------------------
(* SELECT / EXAMINE: claim_recent (rw only), then first sync.  The response *)
(* is EXISTS n, RECENT r.                                                    *)
Select(s, ro) ==
  /\ "select" \in Menu /\ Count
  /\ LET claim == IF ro THEN {} ELSE {u \in ex : rbit[u]}
         rb2   == [u \in Uid |-> IF u \in claim THEN FALSE ELSE rbit[u]]
         \* claim_recent logs an update for the claimed uids (always bumps highest)
         rec2  == IF ro THEN modrec ELSE LogSet(modrec, modhi, claim, "upd")
         hi2   == IF ro THEN modhi ELSE modhi + 1
         nrec  == IF ro THEN Cardinality({u \in ex : rbit[u]}) ELSE Cardinality(claim)
     IN /\ rbit' = rb2 /\ modrec' = rec2 /\ modhi' = hi2
        /\ UNCHANGED <<ex, fl, maxuid, box>>
        /\ sel' = [sel EXCEPT ![s] = IF ro THEN "ro" ELSE "rw"]
        /\ view' = [view EXCEPT ![s] = ex]
        /\ fkey' = [fkey EXCEPT ![s] = [u \in Uid |-> IF u \in ex THEN fl[u] ELSE {}]]
        /\ pend' = [pend EXCEPT ![s] = {}]
        /\ srec' = [srec EXCEPT ![s] = claim]
        /\ prevU' = [prevU EXCEPT ![s] = ex]
        /\ prevF' = [prevF EXCEPT ![s] = [u \in Uid |-> IF u \in ex THEN fl[u] ELSE {}]]
        /\ prevR' = [prevR EXCEPT ![s] = claim]
        /\ smod' = [smod EXCEPT ![s] = hi2]
        /\ out' = [out EXCEPT ![s] = [cond |-> "OK", un |->
                     <<[k |-> "exists", n |-> Cardinality(ex), u |-> 0, f |-> {}],
                       [k |-> "recent", n |-> nrec, u |-> 0, f |-> {}]>>]]

Deselect(s) == /\ sel' = [sel EXCEPT ![s] = "none"]
               /\ view' = [view EXCEPT ![s] = {}] /\ pend' = [pend EXCEPT ![s] = {}]
               /\ srec' = [srec EXCEPT ![s] = {}] /\ prevU' = [prevU EXCEPT ![s] = {}]
               /\ prevR' = [prevR EXCEPT ![s] = {}] /\ smod' = [smod EXCEPT ![s] = -1]
               /\ fkey' = [fkey EXCEPT ![s] = [u \in Uid |-> {}]]
               /\ prevF' = [prevF EXCEPT ![s] = [u \in Uid |-> {}]]

\* CLOSE: rw -> silently expunge the \Deleted messages of the view that still exist
Close(s) ==
  /\ "close" \in Menu /\ Count /\ sel[s] # "none"
  /\ IF sel[s] = "ro" /\ "CloseRONo" \in Devs
     THEN StoreSame /\ UNCHANGED sel /\ NoSync(s, "NO")
     ELSE /\ LET del == IF sel[s] = "rw" THEN {u \in view[s] \cap ex : "D" \in fl[u]} ELSE {}
             IN /\ ex' = ex \ del
                /\ IF sel[s] = "rw"
                   THEN modrec' = LogSet(modrec, modhi, del, "exp") /\ modhi' = modhi + 1
                   ELSE UNCHANGED <<modrec, modhi>>
          /\ UNCHANGED <<fl, rbit, maxuid, box>>
          /\ Deselect(s)
          /\ out' = [out EXCEPT ![s] = [cond |-> "OK", un |-> <<>>]]

Noop(s) ==
  /\ "noop" \in Menu /\ Count /\ sel[s] # "none" /\ StoreSame /\ UNCHANGED sel
  /\ Sync(s, ex, fl, modrec, modhi, srec, <<>>, {}, FALSE, FALSE, "OK", <<>>)

\* (UID) STORE tgt +FLAGS[.SILENT] / -FLAGS[.SILENT] (f)
Store(s, uidmode, tgt, add, f, silent) ==
  /\ "store" \in Menu /\ Count /\ sel[s] # "none" /\ UNCHANGED sel
  /\ IF sel[s] = "ro" THEN StoreSame /\ NoSync(s, "NO")
     ELSE
     LET A     == Addr(view[s], uidmode, tgt)
         live  == A \cap ex
         ap(F) == IF add THEN F \cup {f} ELSE F \ {f}
         fl2   == [u \in Uid |-> IF u \in live THEN ap(fl[u]) ELSE fl[u]]
         \* update() logs every addressed uid; the intended design logs only live ones
         logged == IF "ExpOverwrite" \in Devs THEN A ELSE live
         \* one _set call per message, each bumping `highest`
         n     == Cardinality(logged)
         rec2  == [u \in Uid |-> IF u \in logged
                     THEN [seq |-> modhi + Pos(logged, u), kind |-> "upd"] ELSE modrec[u]]
         hi2   == modhi + n
         sbase(u) == IF "SilenceLive" \in Devs THEN fl[u] ELSE fkey[s][u]
         sil   == IF silent THEN {<<u, ap(sbase(u))>> : u \in {x \in A : ap(sbase(x)) # sbase(x)}} ELSE {}
         \* own responses: FETCH for every addressed message unless silent -- but a message
         \* that turned out to be expunged is answered even when silent (do_store falls
         \* through after setting EXPUNGEISSUED), with the flags of the updated copy
         ownU  == IF silent THEN A \ ex ELSE A
         own   == [i \in 1..Cardinality(ownU) |->
                    LET u == Asc(ownU)[i] IN
                    [k |-> "fetch", n |-> Pos(view[s], u), u |-> IF uidmode THEN u ELSE 0,
                     f |-> (IF u \in ex THEN fl2[u] ELSE ap(fl[u]))
                           \cup (IF u \in srec[s] THEN {"R"} ELSE {})]]
     IN /\ fl' = fl2 /\ modrec' = rec2 /\ modhi' = hi2
        /\ UNCHANGED <<ex, rbit, maxuid, box>>
        /\ Sync(s, ex, fl2, rec2, hi2, srec, own, sil, ~uidmode, uidmode, "OK", <<>>)

\* (UID) FETCH tgt (UID FLAGS [BODY[...]]): seen = a body item without .PEEK
Fetch(s, uidmode, tgt, seen) ==
  /\ "fetch" \in Menu /\ Count /\ sel[s] # "none" /\ UNCHANGED sel
  /\ LET A     == Addr(view[s], uidmode, tgt)
         live  == A \cap ex
         setS  == seen /\ sel[s] = "rw"
         fl2   == [u \in Uid |-> IF setS /\ u \in live THEN fl[u] \cup {"S"} ELSE fl[u]]
         logged == IF ~setS THEN {} ELSE IF "ExpOverwrite" \in Devs THEN A ELSE live
         n     == Cardinality(logged)
         rec2  == [u \in Uid |-> IF u \in logged
                     THEN [seq |-> modhi + Pos(logged, u), kind |-> "upd"] ELSE modrec[u]]
         hi2   == modhi + n
         \* every addressed message of the view is answered (expunged ones from the cache,
         \* with the flags of the cached object; for an expunged message +\Seen goes to a copy)
         own   == [i \in 1..Cardinality(A) |->
                    LET u == Asc(A)[i] IN
                    [k |-> "fetch", n |-> Pos(view[s], u), u |-> u,
                     f |-> (IF setS /\ u \notin ex THEN fl[u] \cup {"S"} ELSE fl2[u])
                           \cup (IF u \in srec[s] THEN {"R"} ELSE {})]]
     IN /\ fl' = fl2 /\ modrec' = rec2 /\ modhi' = hi2
        /\ UNCHANGED <<ex, rbit, maxuid, box>>
        /\ Sync(s, ex, fl2, rec2, hi2, srec, own, {}, ~uidmode, uidmode, "OK", <<>>)

\* EXPUNGE / UID EXPUNGE u (tgt = 0: all)
Expunge(s, tgt) ==
  /\ "expunge" \in Menu /\ Count /\ sel[s] # "none" /\ UNCHANGED sel
  /\ IF sel[s] = "ro" THEN StoreSame /\ NoSync(s, "NO")
     ELSE
     LET cand == Addr(view[s], TRUE, tgt)
         \* find_deleted also returns cached copies of already expunged \Deleted messages;
         \* delete() ignores the missing ones but logs an expunge record for all
         del  == {u \in cand : "D" \in fl[u]}
         rec2 == LogSet(modrec, modhi, del, "exp")
         hi2  == modhi + 1
     IN /\ ex' = ex \ del /\ modrec' = rec2 /\ modhi' = hi2
        /\ UNCHANGED <<fl, rbit, maxuid, box>>
        /\ Sync(s, ex \ del, fl, rec2, hi2, srec, <<>>, {}, FALSE, tgt # 0, "OK", <<>>)

\* APPEND INBOX (one message, flags F0): the caller may or may not have INBOX selected.
\* _pick_selected: the caller's own selection if it is this mailbox, else any rw selection.
AppendMsg(s) ==
  /\ "append" \in Menu /\ Count /\ maxuid < MaxUid /\ UNCHANGED <<sel, box>>
  /\ LET u    == maxuid + 1
         own  == sel[s] = "rw" \/ (sel[s] = "ro" /\ "RecentToOwnRO" \in Devs)
         oth  == {t \in Sess : sel[t] = "rw"}
         \* who gets \Recent: the caller's selection, else SOME rw selection, else the stored bit
         pick == IF own THEN {s} ELSE IF sel[s] = "ro" /\ oth \ {s} # {} THEN oth \ {s}
                 ELSE IF sel[s] = "none" /\ oth # {} THEN oth ELSE {}
     IN \E who \in (IF pick = {} THEN {"nobody"} ELSE pick) :
        LET rec2 == LogSet(modrec, modhi, {u}, "upd")
            hi2  == modhi + 1
            sr2  == [t \in Sess |-> IF t = who THEN srec[t] \cup {u} ELSE srec[t]]
        IN /\ ex' = ex \cup {u} /\ maxuid' = u
           /\ fl' = [fl EXCEPT ![u] = {}]
           /\ rbit' = [rbit EXCEPT ![u] = (who = "nobody")]
           /\ modrec' = rec2 /\ modhi' = hi2
           /\ IF sel[s] = "none"
              THEN /\ srec' = sr2
                   /\ UNCHANGED <<view, fkey, pend, prevU, prevF, prevR, smod>>
                   /\ out' = [out EXCEPT ![s] = [cond |-> "OK", un |-> <<>>]]
              ELSE \* the caller syncs; another session's srec is updated in place
                   Sync(s, ex \cup {u}, [fl EXCEPT ![u] = {}], rec2, hi2, sr2,
                        <<>>, {}, FALSE, FALSE, "OK", <<>>)

\* (UID) MOVE tgt Box / COPY tgt Box
Move(s, uidmode, tgt) ==
  /\ "move" \in Menu /\ Count /\ sel[s] # "none" /\ UNCHANGED sel
  /\ IF sel[s] = "ro" /\ "MoveIgnoresRO" \notin Devs THEN StoreSame /\ NoSync(s, "NO")
     ELSE
     LET A    == Addr(view[s], uidmode, tgt)
         mv   == A \cap ex
         n    == Cardinality(mv)
         \* one expunge record per moved message
         rec2 == [u \in Uid |-> IF u \in mv
                    THEN [seq |-> modhi + Pos(mv, u), kind |-> "exp"] ELSE modrec[u]]
         hi2  == modhi + n
     IN /\ ex' = ex \ mv /\ box' = box + n /\ modrec' = rec2 /\ modhi' = hi2
        /\ UNCHANGED <<fl, rbit, maxuid>>
        /\ Sync(s, ex \ mv, fl, rec2, hi2, srec, <<>>, {}, FALSE, uidmode, "OK", <<>>)

Copy(s, uidmode, tgt) ==
  /\ "copy" \in Menu /\ Count /\ sel[s] # "none" /\ UNCHANGED sel
  /\ LET A == Addr(view[s], uidmode, tgt) \cap ex
     IN /\ box' = box + Cardinality(A)
        /\ UNCHANGED <<ex, fl, rbit, maxuid, modhi, modrec>>
        /\ Sync(s, ex, fl, modrec, modhi, srec, <<>>, {}, FALSE, uidmode, "OK", <<>>)

Next ==
  \E s \in Sess :
     \/ \E ro \in BOOLEAN : Select(s, ro)
     \/ Close(s) \/ Noop(s) \/ AppendMsg(s)
     \/ \E um \in BOOLEAN, tgt \in 0..MaxUid :
          \/ \E add \in BOOLEAN, f \in Flags, si \in BOOLEAN : Store(s, um, tgt, add, f, si)
          \/ \E seen \in BOOLEAN : Fetch(s, um, tgt, seen)
          \/ Move(s, um, tgt) \/ Copy(s, um, tgt)
     \/ \E tgt \in 0..MaxUid : Expunge(s, tgt)

Init ==
  /\ ex = 1..InitMsgs /\ fl = [u \in Uid |-> {}] /\ rbit = [u \in Uid |-> FALSE]
  /\ maxuid = InitMsgs /\ modhi = InitMsgs
  /\ modrec = [u \in Uid |-> IF u <= InitMsgs THEN [seq |-> u, kind |-> "upd"] ELSE NoRec]
  /\ box = 0
  /\ sel = [s \in Sess |-> "none"]
  /\ view = [s \in Sess |-> {}] /\ pend = [s \in Sess |-> {}]
  /\ fkey = [s \in Sess |-> [u \in Uid |-> {}]]
  /\ prevU = [s \in Sess |-> {}] /\ prevF = [s \in Sess |-> [u \in Uid |-> {}]]
  /\ prevR = [s \in Sess |-> {}]
  /\ smod = [s \in Sess |-> -1] /\ srec = [s \in Sess |-> {}]
  /\ out = [s \in Sess |-> [cond |-> "OK", un |-> <<>>]]
  /\ ncmd = 0

Spec == Init /\ [][Next]_vars

---------------------------------------------------------------------------
(* Design-level invariants (checked by TLC on the model; on the real code   *)
(* the same properties are decided by the observer trace specs).            *)

\* C02: a session that has consumed the whole log knows the mailbox
Synced(s) == sel[s] # "none" /\ smod[s] = modhi /\ pend[s] = {}
ConvergedUids  == \A s \in Sess : Synced(s) => view[s] = ex
ConvergedFlags == \A s \in Sess : Synced(s) => \A u \in ex : fkey[s][u] = fl[u]

\* C01 (server side): the previous-fork snapshot is what the client holds
ForkIsView == \A s \in Sess : sel[s] # "none" => prevU[s] = view[s]

\* C17: a message's \Recent lives in at most one place
RecentOnce == \A u \in Uid :
   Cardinality({s \in Sess : u \in srec[s] /\ u \in view[s] /\ sel[s] = "rw"})
     + (IF u \in ex /\ rbit[u] THEN 1 ELSE 0) <= 1

\* C12: nothing in a read-only selection changes the store (action property)
ReadOnlyInert ==
  [][\A s \in Sess : (sel[s] = "ro" /\ out'[s] # out[s] /\ sel'[s] = "ro"
        /\ \A t \in Sess \ {s} : out'[t] = out[t])
       => (ex' \cap view[s] = ex \cap view[s] /\ \A u \in Uid : fl'[u] = fl[u])]_vars

Constr == ncmd <= MaxCmds
=============================================================================
