------------------------------ MODULE MaildirStore ------------------------------
(***************************************************************************)
(* The maildir backend of pymap at FILESYSTEM-OPERATION granularity (C15,   *)
(* maildir half of C04).  One writer session; every command is the          *)
(* straight-line program of filesystem calls that the real code makes, in   *)
(* the order MEASURED on the real code (harness/checks/maildir_crash.py     *)
(* wraps os.rename / link / remove / unlink / mkdir / utime / fsync /       *)
(* open-for-write / NamedTemporaryFile; the check compares the label        *)
(* sequence of every simulated behaviour with the measured one):            *)
(*                                                                          *)
(*   every command   get_mailbox -> reset():  lock, [commit], unlock        *)
(*   APPEND f        reset(f) creat fsync utime link(tmp->new|cur) rmtmp    *)
(*                   lock(f) mktemp write rename(temp->uidlist) unlock  ack *)
(*   SELECT f        reset(f) rename(new->cur) per new file             ack *)
(*   STORE           reset(f) rename(cur/x:2,a -> cur/x:2,b)            ack *)
(*   COPY f->g       reset(f) reset(g) creat fsync utime link rmtmp         *)
(*                   lock(g) mktemp write rename unlock                 ack *)
(*   MOVE f->g       reset(f) reset(g) rename(f/cur/x -> g/new|cur/x)       *)
(*                   lock(g) mktemp write rename unlock                 ack *)
(*   EXPUNGE         reset(f) remove per \Deleted message               ack *)
(*   CHECK           reset(f) lock(f) [mktemp write rename] unlock      ack *)
(*   CREATE g        mkdir g, g/tmp, g/new, g/cur, maildirfolder,           *)
(*                   lock(g) mktemp write rename unlock  reset(selected) ack*)
(*   RENAME a b      rename(dir a -> dir b)              reset(selected) ack*)
(*   SUBSCRIBE       lock(subs) mktemp write rename(temp->subscriptions)    *)
(*   / UNSUBSCRIBE   | remove(subscriptions)  unlock     reset(selected) ack*)
(*   first LOGIN     mkdir user, tmp, new, cur (virgin store)               *)
(* commit = mktemp (NamedTemporaryFile in the SYSTEM temp dir), write,      *)
(* os.rename over the control file; it happens only when the in-memory      *)
(* copy was touched.                                                        *)
(*                                                                          *)
(* Crash is enabled in every state (process killed between two filesystem   *)
(* calls; a crash while idle is the clean stop).  Restart = a new           *)
(* MailboxSet: stale locks expire (StaleLocksExpire: the property does not  *)
(* say "immediately"), every folder is reset() (files without a record are  *)
(* adopted with fresh UIDs).                                                *)
(*                                                                          *)
(* Named deviations (constant Dev; Tol = those tolerated by the invariants):*)
(*  as the tree is now                                                      *)
(*   CopyMetadataOnly       COPY writes a message without content           *)
(*   MoveKeepsSourceRecord  nothing ever drops the source's uidlist record  *)
(*                          of a moved message except CHECK: moved back,    *)
(*                          the old UID is served again                     *)
(*   MkdirNotAtomic         a maildir whose mkdir sequence was interrupted  *)
(*                          is listed but can never be opened               *)
(*   TempInSystemTmp        with OtherFs: rename(temp->control file) fails  *)
(*                          with EXDEV, no command that writes completes    *)
(*  mutants (to show that the invariants bite; never in Ideal / AsIs)       *)
(*   UidlistBeforeFile NoPersistN WriteInPlace SkipSubsWrite                *)
(*   MoveRemoveFirst   MOVE = remove the source file, then deliver a copy   *)
(*                     into the destination (C14: the message is in limbo)  *)
(***************************************************************************)
EXTENDS Naturals, Sequences, FiniteSets, TLC

CONSTANTS Names,        \* folder names; "INBOX" \in Names
          MaxMsgs, MaxOps, MaxSel, MaxCrashes,
          FlagSet,      \* maildir info letters in play, e.g. {"S", "T"}
          AppendFlags,  \* flag sets an APPEND may carry
          Dev, Tol, OtherFs, Virgin,
          Existing      \* folders (other than INBOX) that exist, empty, in the initial store

ASSUME "INBOX" \in Names /\ Tol \subseteq Dev /\ Existing \subseteq Names \ {"INBOX"}

VARIABLES dirs,     \* dirs[f]: 0 absent, 1 root, 2 +tmp, 3 +new, 4 +cur (usable), 5 +maildirfolder
          files,    \* files[f]: set of [key, c, fl, sub]   sub \in {"tmp","new","cur"}
          ul,       \* ul[f]: the dovecot-uidlist FILE [st, v, n, recs]  st \in {"none","ok","torn"}
          lockf,    \* lockf[f]: dovecot-uidlist.lock exists
          subsf,    \* the subscriptions FILE [st, ss]
          slock,    \* subscriptions.lock exists
          temp,     \* the temp file of the commit in progress [k, ul, ss, w]
          mem,      \* the in-memory copy the writer holds [ul, ss]
          prog,     \* remaining filesystem calls of the command in flight
          cur,      \* the command in flight
          sel,      \* selected mailbox of the session ("" = none)
          acked, subsAcked, created,
          seen, gone,
          infl,     \* the command that was in flight at the crash
          failed,   \* some command ended in a server error
          nextKey, nextVal, nmsg, nops, nsel, ncrash, phase,
          last      \* abstract result of the last completed command

vars == <<dirs, files, ul, lockf, subsf, slock, temp, mem, prog, cur, sel, acked, subsAcked,
          created, seen, gone, infl, failed, nextKey, nextVal, nmsg, nops, nsel, ncrash,
          phase, last>>

-----------------------------------------------------------------------------
Max(S) == IF S = {} THEN 0 ELSE CHOOSE x \in S : \A y \in S : y <= x
Min(S) == CHOOSE x \in S : \A y \in S : x <= y

NoUL == [st |-> "none", v |-> 0, n |-> 0, recs |-> {}]
NoTemp == [k |-> "none", ul |-> NoUL, ss |-> {}, w |-> FALSE]
NoMem == [ul |-> NoUL, ss |-> {}]
NoCmd == [op |-> "none", f |-> "", g |-> "", uid |-> 0, key |-> 0, m |-> 0, fl |-> {},
          old |-> {}, sub |-> "", nuid |-> 0]
I(k, f, g, x) == [k |-> k, f |-> f, g |-> g, x |-> x]

Uids(recs) == {r[1] : r \in recs}
Keys(recs) == {r[2] : r \in recs}
Live(f) == {x \in files[f] : x.sub # "tmp"}
LiveKeys(f) == {x.key : x \in Live(f)}
FileOf(f, key) == CHOOSE x \in Live(f) : x.key = key

\* what a server serves from folder f: records whose file exists
Served(f) == IF dirs[f] < 4 \/ ul[f].st # "ok" THEN {}
             ELSE {[uid |-> r[1], key |-> r[2], c |-> FileOf(f, r[2]).c, fl |-> FileOf(f, r[2]).fl]
                     : r \in {q \in ul[f].recs : q[2] \in LiveKeys(f)}}

\* the next UID as a writer reads it from the file
ReadN(u) == IF "NoPersistN" \in Dev THEN Max(Uids(u.recs)) + 1 ELSE u.n

\* ranks the keys of a set 1..n (adoption order; the real order is the directory order)
Rank(S, k) == Cardinality({j \in S : j <= k})

Adopt(f, u) ==       \* reset(): unknown files get fresh UIDs, [Ideal: dangling records go]
  LET unknown == LiveKeys(f) \ Keys(u.recs)
      n0 == ReadN(u)
      keep == IF "MoveKeepsSourceRecord" \in Dev THEN u.recs
              ELSE {r \in u.recs : r[2] \in LiveKeys(f)}
  IN [st |-> "ok", v |-> u.v, n |-> n0 + Cardinality(unknown),
      recs |-> keep \cup {<<n0 + Rank(unknown, k) - 1, k>> : k \in unknown}]

Init ==
  /\ dirs = [f \in Names |-> IF f = "INBOX" /\ ~Virgin THEN 4 ELSE IF f \in Existing THEN 5 ELSE 0]
  /\ files = [f \in Names |-> {}]
  /\ ul = [f \in Names |-> IF (f = "INBOX" /\ ~Virgin) \/ f \in Existing
                           THEN [st |-> "ok", v |-> 1, n |-> 1, recs |-> {}] ELSE NoUL]
  /\ lockf = [f \in Names |-> FALSE]
  /\ subsf = [st |-> "none", ss |-> {}] /\ slock = FALSE
  /\ temp = NoTemp /\ mem = NoMem /\ prog = <<>> /\ cur = NoCmd /\ sel = ""
  /\ acked = {} /\ subsAcked = {} /\ created = Existing /\ seen = {} /\ gone = {}
  /\ infl = NoCmd /\ failed = FALSE
  /\ nextKey = 1 /\ nextVal = 2 /\ nmsg = 0 /\ nops = 0 /\ nsel = 0 /\ ncrash = 0
  /\ phase = "run" /\ last = [op |-> "none", uid |-> 0]

-----------------------------------------------------------------------------
\* programs

Reset(f) == (IF ul[f].st = "none" THEN <<I("lock", f, "init", 0), I("unlock", f, "", 0)>> ELSE <<>>)
            \o <<I("lock", f, "reset", 0), I("unlock", f, "", 0)>>
PostReset == IF sel # "" THEN Reset(sel) ELSE <<>>
AddFile(f, sub) == <<I("creat", f, "", 0), I("fsync", f, "", 0), I("utime", f, "", 0),
                     I("link", f, sub, 0), I("rmtmp", f, "", 0)>>
AddRec(f) == <<I("lock", f, "addrec", 0), I("unlock", f, "", 0)>>
Ack == <<I("ack", "", "", 0)>>
SubOf(f) == IF sel = f THEN "cur" ELSE "new"

Idle == phase = "run" /\ cur.op = "none"
Usable(f) == dirs[f] >= 4
CanBegin == Idle /\ nops < MaxOps /\ Usable("INBOX")

\* after a restart the first command forgets the obligations the crashed command relaxed
Touched(a) == \/ infl.op = "Expunge" /\ a.f = infl.f /\ "T" \in a.fl
              \/ infl.op \in {"Move", "Store"} /\ a.f = infl.f /\ a.uid = infl.uid
Start(c, p, count) ==
  /\ cur' = c /\ prog' = p /\ nops' = nops + count
  /\ acked' = {a \in acked : ~Touched(a)}
  /\ subsAcked' = IF infl.op \in {"Subscribe", "Unsubscribe"}
                  THEN (IF infl.f \in subsf.ss THEN subsAcked \cup {infl.f} ELSE subsAcked \ {infl.f})
                  ELSE subsAcked
  /\ infl' = NoCmd

BLogin ==
  /\ Idle /\ dirs["INBOX"] = 0
  /\ Start([NoCmd EXCEPT !.op = "Login"],
           <<I("mkdir", "INBOX", "", 1), I("mkdir", "INBOX", "", 2), I("mkdir", "INBOX", "", 3),
             I("mkdir", "INBOX", "", 4)>> \o Ack, 0)
  /\ UNCHANGED <<dirs, files, ul, lockf, subsf, slock, temp, mem, sel, created, seen,
                 gone, failed, nextKey, nextVal, nmsg, nsel, ncrash, phase, last>>

BAppend(f, fl) ==
  /\ CanBegin /\ Usable(f) /\ nmsg < MaxMsgs
  /\ LET body == AddFile(f, SubOf(f))
         rec == AddRec(f)
     IN Start([NoCmd EXCEPT !.op = "Append", !.f = f, !.key = nextKey, !.m = nmsg + 1, !.fl = fl],
              Reset(f) \o (IF "UidlistBeforeFile" \in Dev THEN rec \o body ELSE body \o rec)
              \o (IF sel # "" /\ sel # f THEN Reset(sel) ELSE <<>>) \o Ack, 1)
  /\ nextKey' = nextKey + 1 /\ nmsg' = nmsg + 1
  /\ UNCHANGED <<dirs, files, ul, lockf, subsf, slock, temp, mem, sel, created, seen,
                 gone, failed, nextVal, nsel, ncrash, phase, last>>

BSelect(f) ==
  /\ Idle /\ Usable("INBOX") /\ Usable(f) /\ sel # f /\ nsel < MaxSel
  /\ Start([NoCmd EXCEPT !.op = "Select", !.f = f],
           Reset(f) \o [i \in 1..Cardinality({x \in files[f] : x.sub = "new"}) |-> I("claim", f, "", 0)]
           \o Ack, 0)
  /\ nsel' = nsel + 1
  /\ UNCHANGED <<dirs, files, ul, lockf, subsf, slock, temp, mem, sel, created, seen,
                 gone, failed, nextKey, nextVal, nmsg, ncrash, phase, last>>

Entry(f, uid) == {a \in acked : a.f = f /\ a.uid = uid /\ ~Touched(a)}
KeyOf(f, uid) == IF \E r \in ul[f].recs : r[1] = uid
                 THEN (CHOOSE r \in ul[f].recs : r[1] = uid)[2] ELSE 0

BStore(f, uid, mode, flag) ==
  /\ CanBegin /\ sel = f /\ Entry(f, uid) # {}
  /\ LET a == CHOOSE x \in Entry(f, uid) : TRUE
         new == IF mode = "add" THEN a.fl \cup {flag} ELSE a.fl \ {flag}
     IN /\ new # a.fl
        /\ Start([NoCmd EXCEPT !.op = "Store", !.f = f, !.uid = uid, !.key = KeyOf(f, uid),
                               !.fl = new, !.old = a.fl],
                 Reset(f) \o <<I("renflag", f, "", 0)>> \o Ack, 1)
  /\ UNCHANGED <<dirs, files, ul, lockf, subsf, slock, temp, mem, sel, created, seen,
                 gone, failed, nextKey, nextVal, nmsg, nsel, ncrash, phase, last>>

BCopy(f, uid, g) ==
  /\ CanBegin /\ sel = f /\ Entry(f, uid) # {} /\ Usable(g) /\ g # f
  /\ LET a == CHOOSE x \in Entry(f, uid) : TRUE
     IN /\ ~\E b \in acked : b.f = g /\ b.c = a.c
        /\ Start([NoCmd EXCEPT !.op = "Copy", !.f = f, !.g = g, !.uid = uid, !.key = nextKey,
                               !.m = IF "CopyMetadataOnly" \in Dev THEN 0 ELSE a.c,
                               !.fl = a.fl],
                 Reset(f) \o Reset(g) \o AddFile(g, SubOf(g)) \o AddRec(g) \o Ack, 1)
  /\ nextKey' = nextKey + 1
  /\ UNCHANGED <<dirs, files, ul, lockf, subsf, slock, temp, mem, sel, created, seen,
                 gone, failed, nextVal, nmsg, nsel, ncrash, phase, last>>

BMove(f, uid, g) ==
  /\ CanBegin /\ sel = f /\ Entry(f, uid) # {} /\ Usable(g) /\ g # f
  /\ KeyOf(f, uid) \in LiveKeys(f)
  /\ LET a == CHOOSE x \in Entry(f, uid) : TRUE
         rm == "MoveRemoveFirst" \in Dev       \* mutant: unlink the source, then write a copy
     IN Start([NoCmd EXCEPT !.op = "Move", !.f = f, !.g = g, !.uid = uid, !.key = KeyOf(f, uid),
                            !.m = IF rm THEN a.c ELSE 0, !.fl = a.fl, !.sub = SubOf(g)],
              Reset(f) \o Reset(g)
              \o (IF rm THEN <<I("rmmsg", f, "", KeyOf(f, uid))>> \o AddFile(g, SubOf(g))
                  ELSE <<I("mvmsg", f, g, 0)>>)
              \o AddRec(g) \o Ack, 1)
  /\ UNCHANGED <<dirs, files, ul, lockf, subsf, slock, temp, mem, sel, created, seen,
                 gone, failed, nextKey, nextVal, nmsg, nsel, ncrash, phase, last>>

DeletedKeys(f) == {KeyOf(f, a.uid) : a \in {x \in acked : x.f = f /\ "T" \in x.fl /\ ~Touched(x)}}
SeqOfSet(S) == [i \in 1..Cardinality(S) |-> CHOOSE k \in S : Rank(S, k) = i]

BExpunge(f) ==
  /\ CanBegin /\ sel = f /\ DeletedKeys(f) # {}
  /\ Start([NoCmd EXCEPT !.op = "Expunge", !.f = f],
           Reset(f) \o [i \in 1..Cardinality(DeletedKeys(f)) |->
                           I("rmmsg", f, "", SeqOfSet(DeletedKeys(f))[i])] \o Ack, 1)
  /\ UNCHANGED <<dirs, files, ul, lockf, subsf, slock, temp, mem, sel, created, seen,
                 gone, failed, nextKey, nextVal, nmsg, nsel, ncrash, phase, last>>

BCheck(f) ==
  /\ CanBegin /\ sel = f
  /\ Start([NoCmd EXCEPT !.op = "Check", !.f = f],
           Reset(f) \o <<I("lock", f, "cleanup", 0), I("unlock", f, "", 0)>> \o Ack, 1)
  /\ UNCHANGED <<dirs, files, ul, lockf, subsf, slock, temp, mem, sel, created, seen,
                 gone, failed, nextKey, nextVal, nmsg, nsel, ncrash, phase, last>>

BCreate(g) ==
  /\ CanBegin /\ dirs[g] = 0 /\ g # "INBOX"
  /\ Start([NoCmd EXCEPT !.op = "Create", !.f = g],
           <<I("mkdir", g, "", 1), I("mkdir", g, "", 2), I("mkdir", g, "", 3), I("mkdir", g, "", 4),
             I("mark", g, "", 0), I("lock", g, "init", 0), I("unlock", g, "", 0)>>
           \o PostReset \o Ack, 1)
  /\ UNCHANGED <<dirs, files, ul, lockf, subsf, slock, temp, mem, sel, created, seen,
                 gone, failed, nextKey, nextVal, nmsg, nsel, ncrash, phase, last>>

BRename(a, b) ==
  /\ CanBegin /\ a # "INBOX" /\ b # "INBOX" /\ Usable(a) /\ dirs[b] = 0 /\ sel # a
  /\ Start([NoCmd EXCEPT !.op = "Rename", !.f = a, !.g = b],
           <<I("rendir", a, b, 0)>> \o PostReset \o Ack, 1)
  /\ UNCHANGED <<dirs, files, ul, lockf, subsf, slock, temp, mem, sel, created, seen,
                 gone, failed, nextKey, nextVal, nmsg, nsel, ncrash, phase, last>>

BSub(g, on) ==
  /\ CanBegin /\ g # "INBOX" /\ (on <=> g \notin subsAcked)
  /\ Start([NoCmd EXCEPT !.op = IF on THEN "Subscribe" ELSE "Unsubscribe", !.f = g],
           (IF "SkipSubsWrite" \in Dev THEN <<>>
            ELSE <<I("slock", g, IF on THEN "sub" ELSE "unsub", 0), I("sunlock", "", "", 0)>>)
           \o PostReset \o Ack, 1)
  /\ UNCHANGED <<dirs, files, ul, lockf, subsf, slock, temp, mem, sel, created, seen,
                 gone, failed, nextKey, nextVal, nmsg, nsel, ncrash, phase, last>>

-----------------------------------------------------------------------------
\* one filesystem call

Head1 == prog[1]
Rest == Tail(prog)
Commit(f) == IF "WriteInPlace" \in Dev
             THEN <<I("trunc", f, "", 0), I("writeul", f, "", 0)>>
             ELSE <<I("mktemp", "", "ul", 0), I("write", "", "", 0), I("renameul", f, "", 0)>>
Abort(f) == <<I("unlock", f, "", 0), I("fail", "", "", 0)>>

Lock(i) ==        \* open(dovecot-uidlist.lock, 'x'), then the file is read and the body runs
  LET f == i.f
      fresh == [st |-> "ok", v |-> nextVal, n |-> 1, recs |-> {}]
      base == IF ul[f].st = "ok" THEN [ul[f] EXCEPT !.n = ReadN(ul[f])] ELSE fresh
      uid == base.n
      m == CASE i.g = "init"    -> base
             [] i.g = "reset"   -> Adopt(f, base)
             [] i.g = "addrec"  -> [base EXCEPT !.n = uid + 1, !.recs = @ \cup {<<uid, cur.key>>}]
             [] i.g = "cleanup" -> [base EXCEPT !.recs = {r \in @ : r[2] \in LiveKeys(f)}]
      touched == CASE i.g = "init"    -> TRUE
                   [] i.g = "reset"   -> m # base
                   [] i.g = "addrec"  -> TRUE
                   [] i.g = "cleanup" -> base.recs # {}
  IN /\ ~lockf[f]
     /\ lockf' = [lockf EXCEPT ![f] = TRUE]
     /\ IF ul[f].st = "torn"
        THEN /\ prog' = Abort(f) /\ UNCHANGED <<mem, cur, nextVal>>
        ELSE /\ mem' = [mem EXCEPT !.ul = m]
             /\ cur' = IF i.g = "addrec" THEN [cur EXCEPT !.nuid = uid] ELSE cur
             /\ nextVal' = IF ul[f].st = "ok" THEN nextVal ELSE nextVal + 1
             /\ prog' = (IF touched THEN Commit(f) ELSE <<>>) \o Rest
     /\ UNCHANGED <<dirs, files, ul, subsf, slock, temp, sel, acked, subsAcked, created, seen,
                    gone, failed, nextKey, nmsg>>

SLock(i) ==
  LET ss == IF i.g = "sub" THEN subsf.ss \cup {i.f} ELSE subsf.ss \ {i.f}
  IN /\ ~slock /\ slock' = TRUE
     /\ mem' = [mem EXCEPT !.ss = ss]
     /\ prog' = (IF ss # {} THEN <<I("mktemp", "", "ss", 0), I("write", "", "", 0),
                                   I("renamesubs", "", "", 0)>>
                 ELSE IF subsf.st = "ok" THEN <<I("rmsubs", "", "", 0)>> ELSE <<>>) \o Rest
     /\ UNCHANGED <<dirs, files, ul, lockf, subsf, temp, cur, sel, acked, subsAcked, created, seen,
                    gone, failed, nextKey, nextVal, nmsg>>

Relabel(S, a, b) == {[x EXCEPT !.f = IF @ = a THEN b ELSE @] : x \in S}
Relabel5(S, a, b) == {<<IF x[1] = a THEN b ELSE x[1], x[2], x[3], x[4], x[5]>> : x \in S}
Relabel4(S, a, b) == {<<IF x[1] = a THEN b ELSE x[1], x[2], x[3], x[4]>> : x \in S}

DoAck ==
  LET src == CHOOSE a \in acked : a.f = cur.f /\ a.uid = cur.uid
      vf == ul[cur.f].v
      vg == ul[cur.g].v
  IN /\ CASE cur.op = "Append" ->
               /\ acked' = acked \cup {[f |-> cur.f, v |-> vf, uid |-> cur.nuid, c |-> cur.m,
                                        fl |-> cur.fl, cp |-> FALSE]}
               /\ seen' = seen \cup {<<cur.f, vf, cur.nuid, cur.m, FALSE>>}
               /\ UNCHANGED <<gone, subsAcked, created, sel>>
          [] cur.op = "Copy" ->
               /\ acked' = acked \cup {[f |-> cur.g, v |-> vg, uid |-> cur.nuid, c |-> src.c,
                                        fl |-> src.fl, cp |-> TRUE]}
               /\ seen' = seen \cup {<<cur.g, vg, cur.nuid, src.c, TRUE>>}
               /\ UNCHANGED <<gone, subsAcked, created, sel>>
          [] cur.op = "Move" ->
               /\ acked' = (acked \ {src}) \cup {[f |-> cur.g, v |-> vg, uid |-> cur.nuid,
                                                  c |-> src.c, fl |-> src.fl, cp |-> src.cp]}
               /\ seen' = seen \cup {<<cur.g, vg, cur.nuid, src.c, src.cp>>}
               /\ gone' = gone \cup {<<cur.f, src.v, src.uid, "move">>}
               /\ UNCHANGED <<subsAcked, created, sel>>
          [] cur.op = "Store" ->
               /\ acked' = (acked \ {src}) \cup {[src EXCEPT !.fl = cur.fl]}
               /\ UNCHANGED <<seen, gone, subsAcked, created, sel>>
          [] cur.op = "Expunge" ->
               LET del == {a \in acked : a.f = cur.f /\ "T" \in a.fl}
               IN /\ acked' = acked \ del
                  /\ gone' = gone \cup {<<a.f, a.v, a.uid, "expunge">> : a \in del}
                  /\ UNCHANGED <<seen, subsAcked, created, sel>>
          [] cur.op = "Create" ->
               /\ created' = created \cup {cur.f}
               /\ UNCHANGED <<acked, seen, gone, subsAcked, sel>>
          [] cur.op = "Subscribe" ->
               /\ subsAcked' = subsAcked \cup {cur.f}
               /\ UNCHANGED <<acked, seen, gone, created, sel>>
          [] cur.op = "Unsubscribe" ->
               /\ subsAcked' = subsAcked \ {cur.f}
               /\ UNCHANGED <<acked, seen, gone, created, sel>>
          [] cur.op = "Select" ->
               /\ sel' = cur.f
               /\ UNCHANGED <<acked, seen, gone, subsAcked, created>>
          [] OTHER -> UNCHANGED <<acked, seen, gone, subsAcked, created, sel>>
     /\ last' = [op |-> cur.op, uid |-> cur.nuid]
     /\ cur' = NoCmd /\ prog' = Rest
     /\ UNCHANGED <<dirs, files, ul, lockf, subsf, slock, temp, mem, failed, nextKey, nextVal, nmsg>>

Step(k) ==
  /\ phase = "run" /\ prog # <<>> /\ Head1.k = k
  /\ LET i == Head1
         f == i.f
     IN
     CASE k = "lock" -> Lock(i) /\ UNCHANGED last
       [] k = "slock" -> SLock(i) /\ UNCHANGED last
       [] k = "ack" -> DoAck
       [] k = "fail" ->
            /\ cur' = NoCmd /\ prog' = Rest /\ failed' = TRUE /\ sel' = ""
            /\ UNCHANGED <<dirs, files, ul, lockf, subsf, slock, temp, mem, acked, subsAcked,
                           created, seen, gone, nextKey, nextVal, nmsg, last>>
       [] k = "unlock" ->
            /\ lockf' = [lockf EXCEPT ![f] = FALSE] /\ prog' = Rest
            /\ UNCHANGED <<dirs, files, ul, subsf, slock, temp, mem, cur, sel, acked, subsAcked,
                           created, seen, gone, failed, nextKey, nextVal, nmsg, last>>
       [] k = "sunlock" ->
            /\ slock' = FALSE /\ prog' = Rest
            /\ UNCHANGED <<dirs, files, ul, lockf, subsf, temp, mem, cur, sel, acked, subsAcked,
                           created, seen, gone, failed, nextKey, nextVal, nmsg, last>>
       [] k = "mktemp" ->
            /\ temp' = [NoTemp EXCEPT !.k = i.g] /\ prog' = Rest
            /\ UNCHANGED <<dirs, files, ul, lockf, subsf, slock, mem, cur, sel, acked, subsAcked,
                           created, seen, gone, failed, nextKey, nextVal, nmsg, last>>
       [] k = "write" ->
            /\ temp' = [temp EXCEPT !.ul = mem.ul, !.ss = mem.ss, !.w = TRUE] /\ prog' = Rest
            /\ UNCHANGED <<dirs, files, ul, lockf, subsf, slock, mem, cur, sel, acked, subsAcked,
                           created, seen, gone, failed, nextKey, nextVal, nmsg, last>>
       [] k = "renameul" ->
            /\ IF OtherFs /\ "TempInSystemTmp" \in Dev
               THEN prog' = Abort(f) /\ UNCHANGED ul        \* EXDEV
               ELSE ul' = [ul EXCEPT ![f] = temp.ul] /\ prog' = Rest
            /\ temp' = NoTemp
            /\ UNCHANGED <<dirs, files, lockf, subsf, slock, mem, cur, sel, acked, subsAcked,
                           created, seen, gone, failed, nextKey, nextVal, nmsg, last>>
       [] k = "renamesubs" ->
            /\ IF OtherFs /\ "TempInSystemTmp" \in Dev
               THEN prog' = <<I("sunlock", "", "", 0), I("fail", "", "", 0)>> /\ UNCHANGED subsf
               ELSE subsf' = [st |-> "ok", ss |-> temp.ss] /\ prog' = Rest
            /\ temp' = NoTemp
            /\ UNCHANGED <<dirs, files, ul, lockf, slock, mem, cur, sel, acked, subsAcked,
                           created, seen, gone, failed, nextKey, nextVal, nmsg, last>>
       [] k = "rmsubs" ->
            /\ subsf' = [st |-> "none", ss |-> {}] /\ prog' = Rest
            /\ UNCHANGED <<dirs, files, ul, lockf, slock, temp, mem, cur, sel, acked, subsAcked,
                           created, seen, gone, failed, nextKey, nextVal, nmsg, last>>
       [] k = "trunc" ->          \* mutant WriteInPlace: open(uidlist, 'w')
            /\ ul' = [ul EXCEPT ![f] = [@ EXCEPT !.st = "torn"]] /\ prog' = Rest
            /\ UNCHANGED <<dirs, files, lockf, subsf, slock, temp, mem, cur, sel, acked, subsAcked,
                           created, seen, gone, failed, nextKey, nextVal, nmsg, last>>
       [] k = "writeul" ->
            /\ ul' = [ul EXCEPT ![f] = mem.ul] /\ prog' = Rest
            /\ UNCHANGED <<dirs, files, lockf, subsf, slock, temp, mem, cur, sel, acked, subsAcked,
                           created, seen, gone, failed, nextKey, nextVal, nmsg, last>>
       [] k = "creat" ->
            /\ files' = [files EXCEPT ![f] = @ \cup {[key |-> cur.key, c |-> cur.m, fl |-> cur.fl,
                                                      sub |-> "tmp"]}]
            /\ prog' = Rest
            /\ UNCHANGED <<dirs, ul, lockf, subsf, slock, temp, mem, cur, sel, acked, subsAcked,
                           created, seen, gone, failed, nextKey, nextVal, nmsg, last>>
       [] k \in {"fsync", "utime"} ->
            /\ prog' = Rest
            /\ UNCHANGED <<dirs, files, ul, lockf, subsf, slock, temp, mem, cur, sel, acked,
                           subsAcked, created, seen, gone, failed, nextKey, nextVal, nmsg, last>>
       [] k = "link" ->
            /\ files' = [files EXCEPT ![f] = @ \cup {[key |-> cur.key, c |-> cur.m, fl |-> cur.fl,
                                                      sub |-> i.g]}]
            /\ prog' = Rest
            /\ UNCHANGED <<dirs, ul, lockf, subsf, slock, temp, mem, cur, sel, acked, subsAcked,
                           created, seen, gone, failed, nextKey, nextVal, nmsg, last>>
       [] k = "rmtmp" ->
            /\ files' = [files EXCEPT ![f] = {x \in @ : ~(x.key = cur.key /\ x.sub = "tmp")}]
            /\ prog' = Rest
            /\ UNCHANGED <<dirs, ul, lockf, subsf, slock, temp, mem, cur, sel, acked, subsAcked,
                           created, seen, gone, failed, nextKey, nextVal, nmsg, last>>
       [] k = "claim" ->
            /\ LET new == {x \in files[f] : x.sub = "new"}
               IN files' = IF new = {} THEN files
                           ELSE LET x == CHOOSE y \in new : y.key = Min({z.key : z \in new})
                                IN [files EXCEPT ![f] = (@ \ {x}) \cup {[x EXCEPT !.sub = "cur"]}]
            /\ prog' = Rest
            /\ UNCHANGED <<dirs, ul, lockf, subsf, slock, temp, mem, cur, sel, acked, subsAcked,
                           created, seen, gone, failed, nextKey, nextVal, nmsg, last>>
       [] k = "renflag" ->
            /\ files' = [files EXCEPT ![f] = {IF x.key = cur.key /\ x.sub # "tmp"
                                              THEN [x EXCEPT !.fl = cur.fl] ELSE x : x \in @}]
            /\ prog' = Rest
            /\ UNCHANGED <<dirs, ul, lockf, subsf, slock, temp, mem, cur, sel, acked, subsAcked,
                           created, seen, gone, failed, nextKey, nextVal, nmsg, last>>
       [] k = "mvmsg" ->
            /\ LET x == FileOf(f, cur.key)
               IN files' = [files EXCEPT ![f] = @ \ {x},
                                         ![i.g] = @ \cup {[x EXCEPT !.sub = cur.sub]}]
            /\ prog' = Rest
            /\ UNCHANGED <<dirs, ul, lockf, subsf, slock, temp, mem, cur, sel, acked, subsAcked,
                           created, seen, gone, failed, nextKey, nextVal, nmsg, last>>
       [] k = "rmmsg" ->
            /\ files' = [files EXCEPT ![f] = {x \in @ : x.key # i.x}]
            /\ prog' = Rest
            /\ UNCHANGED <<dirs, ul, lockf, subsf, slock, temp, mem, cur, sel, acked, subsAcked,
                           created, seen, gone, failed, nextKey, nextVal, nmsg, last>>
       [] k = "mkdir" ->
            /\ dirs' = [dirs EXCEPT ![f] = i.x] /\ prog' = Rest
            /\ UNCHANGED <<files, ul, lockf, subsf, slock, temp, mem, cur, sel, acked, subsAcked,
                           created, seen, gone, failed, nextKey, nextVal, nmsg, last>>
       [] k = "mark" ->
            /\ dirs' = [dirs EXCEPT ![f] = 5] /\ prog' = Rest
            /\ UNCHANGED <<files, ul, lockf, subsf, slock, temp, mem, cur, sel, acked, subsAcked,
                           created, seen, gone, failed, nextKey, nextVal, nmsg, last>>
       [] k = "rendir" ->         \* one os.rename of the directory: everything in it moves
            LET a == f
                b == i.g
            IN /\ dirs' = [dirs EXCEPT ![b] = dirs[a], ![a] = 0]
               /\ files' = [files EXCEPT ![b] = files[a], ![a] = {}]
               /\ ul' = [ul EXCEPT ![b] = ul[a], ![a] = NoUL]
               /\ lockf' = [lockf EXCEPT ![b] = lockf[a], ![a] = FALSE]
               /\ acked' = Relabel(acked, a, b)
               /\ seen' = Relabel5(seen, a, b)
               /\ gone' = Relabel4(gone, a, b)
               /\ created' = {IF x = a THEN b ELSE x : x \in created}
               /\ prog' = Rest
               /\ UNCHANGED <<subsf, slock, temp, mem, cur, sel, subsAcked, failed, nextKey,
                              nextVal, nmsg, last>>
  /\ UNCHANGED <<infl, nops, nsel, ncrash, phase>>

-----------------------------------------------------------------------------
Crash ==
  /\ phase = "run" /\ ncrash < MaxCrashes
  /\ phase' = "crashed" /\ ncrash' = ncrash + 1
  /\ infl' = cur /\ cur' = NoCmd /\ prog' = <<>> /\ mem' = NoMem /\ temp' = NoTemp /\ sel' = ""
  /\ UNCHANGED <<dirs, files, ul, lockf, subsf, slock, acked, subsAcked, created, seen, gone,
                 failed, nextKey, nextVal, nmsg, nops, nsel, last>>

\* a new server: stale locks expire, [Ideal: interrupted mkdir sequences are completed],
\* every usable folder is reset()
Restart ==
  /\ phase = "crashed"
  /\ LET d2 == [f \in Names |-> IF dirs[f] \in 1..3 /\ "MkdirNotAtomic" \notin Dev THEN 4 ELSE dirs[f]]
         fresh(f) == [st |-> "ok", v |-> nextVal, n |-> 1, recs |-> {}]
         u2 == [f \in Names |->
                  IF d2[f] < 4 \/ ul[f].st = "torn" THEN ul[f]
                  ELSE Adopt(f, IF ul[f].st = "ok" THEN ul[f] ELSE fresh(f))]
         served2(f) == IF d2[f] < 4 \/ u2[f].st # "ok" THEN {}
                       ELSE {<<f, u2[f].v, r[1], FileOf(f, r[2]).c, FALSE>>
                               : r \in {q \in u2[f].recs : q[2] \in LiveKeys(f)}}
         old(x) == \E y \in seen : y[1] = x[1] /\ y[2] = x[2] /\ y[3] = x[3] /\ y[4] = x[4]
     IN /\ dirs' = d2 /\ ul' = u2
        /\ seen' = seen \cup {x \in UNION {served2(f) : f \in Names} : ~old(x)}
        /\ nextVal' = nextVal + 1
  /\ lockf' = [f \in Names |-> FALSE] /\ slock' = FALSE
  /\ phase' = "run"
  /\ UNCHANGED <<files, subsf, temp, mem, prog, cur, sel, acked, subsAcked, created, gone, infl,
                 failed, nextKey, nmsg, nops, nsel, ncrash, last>>

Kinds == {"lock", "slock", "ack", "fail", "unlock", "sunlock", "mktemp", "write", "renameul",
          "renamesubs", "rmsubs", "trunc", "writeul", "creat", "fsync", "utime", "link", "rmtmp",
          "claim", "renflag", "mvmsg", "rmmsg", "mkdir", "mark", "rendir"}

UidRange == 1..(3 * MaxMsgs + 2)

Begin ==
  \/ BLogin
  \/ \E f \in Names, fl \in AppendFlags : BAppend(f, fl)
  \/ \E f \in Names : BSelect(f)
  \/ \E f \in Names : BExpunge(f)
  \/ \E f \in Names : BCheck(f)
  \/ \E f \in Names : BCreate(f)
  \/ \E f \in Names, on \in BOOLEAN : BSub(f, on)
  \/ \E f \in Names, g \in Names : BRename(f, g)
  \/ \E f \in Names, uid \in UidRange, mode \in {"add", "del"}, flag \in FlagSet :
        BStore(f, uid, mode, flag)
  \/ \E f \in Names, uid \in UidRange, g \in Names : BCopy(f, uid, g)
  \/ \E f \in Names, uid \in UidRange, g \in Names : BMove(f, uid, g)

Next == Begin \/ (\E k \in Kinds : Step(k)) \/ Crash \/ Restart

Spec == Init /\ [][Next]_vars

-----------------------------------------------------------------------------
\* The property, as state predicates.  They are required whenever the server is up and
\* idle - in particular in the state right after Crash + Restart, which Crash being
\* enabled everywhere makes reachable from every state.

T(d) == d \in Tol
Quiet == phase = "run" /\ cur.op = "none"

InflStore(a) == infl.op = "Store" /\ a.f = infl.f /\ a.uid = infl.uid
InflMove(a) == infl.op = "Move" /\ a.f = infl.f /\ a.uid = infl.uid
MayBeGone(a) == infl.op = "Expunge" /\ a.f = infl.f /\ "T" \in a.fl
ContentOK(a, s) == s.c = a.c \/ (a.cp /\ s.c = 0 /\ T("CopyMetadataOnly"))
FlagsOK(a, s) == s.fl = a.fl \/ (InflStore(a) /\ s.fl = infl.fl)
Cand(a) == {s \in Served(a.f) : ul[a.f].v = a.v => s.uid = a.uid}
           \cup (IF InflMove(a) THEN Served(infl.g) ELSE {})

AckedSurvive ==
  Quiet => \A a \in acked : MayBeGone(a) \/ \E s \in Cand(a) : ContentOK(a, s)
AckedFlagsPersist ==
  Quiet => \A a \in acked : MayBeGone(a) \/ (\A s \in Cand(a) : ~ContentOK(a, s))
                            \/ \E s \in Cand(a) : ContentOK(a, s) /\ FlagsOK(a, s)

NoUidReuse ==
  /\ \A x, y \in seen : (x[1] = y[1] /\ x[2] = y[2] /\ x[3] = y[3]) =>
        \/ x[4] = y[4]
        \/ T("CopyMetadataOnly") /\ ((x[5] /\ y[4] = 0) \/ (y[5] /\ x[4] = 0))
  /\ Quiet => \A f \in Names : \A s \in Served(f) :
        \A g \in gone : (g[1] = f /\ g[2] = ul[f].v /\ g[3] = s.uid) =>
           g[4] = "move" /\ T("MoveKeepsSourceRecord")
  /\ Quiet => \A f \in Names : ul[f].st = "ok" =>
        ReadN(ul[f]) > Max({x[3] : x \in {y \in seen : y[1] = f /\ y[2] = ul[f].v}})

ControlFilesReadable ==
  /\ \A f \in Names : ul[f].st # "torn"
  /\ subsf.st # "torn"
  /\ Quiet => \A f \in Names : dirs[f] \in 1..3 => T("MkdirNotAtomic")
  /\ failed => T("TempInSystemTmp")

AckedSubscriptionsPersist ==
  Quiet => \A g \in Names \ {"INBOX"} :
              (infl.op \in {"Subscribe", "Unsubscribe"} /\ infl.f = g)
              \/ (g \in subsAcked <=> g \in subsf.ss)

AckedCreatesPersist == Quiet => \A f \in created : dirs[f] >= 4

\* ---- C14 at filesystem-operation granularity -------------------------------------------
\* "At every instant ... a message being moved exists in the source or the destination":
\* the file of the MOVE in flight - or of the MOVE that was in flight when the process was
\* killed - is in one of the two folders in EVERY state (running, crashed, restarted) ...
Moving == IF cur.op = "Move" THEN cur ELSE infl
MoveFileSomewhere ==
  Moving.op = "Move" => Moving.key \in LiveKeys(Moving.f) \cup LiveKeys(Moving.g)
\* ... and the server that comes up after Crash (enabled in every state) + Restart SERVES the
\* message from one of the two (a renamed file without a record is adopted by reset())
MoveNeverInLimbo ==
  (Quiet /\ infl.op = "Move") =>
     \A a \in acked : (a.f = infl.f /\ a.uid = infl.uid) =>
        \E s \in Served(infl.f) \cup Served(infl.g) : s.c = a.c
\* "after a completed MOVE in exactly one of them": when the OK is about to be written the
\* file has left the source and the destination serves it under the UID COPYUID will name
MoveExactlyOne ==
  (phase = "run" /\ cur.op = "Move" /\ prog # <<>> /\ prog[1].k = "ack") =>
     /\ cur.key \notin LiveKeys(cur.f)
     /\ \E s \in Served(cur.g) : s.key = cur.key /\ s.uid = cur.nuid

TypeOK == /\ phase \in {"run", "crashed"}
          /\ \A f \in Names : dirs[f] \in 0..5 /\ ul[f].st \in {"none", "ok", "torn"}

\* for -simulate runs that produce the histories of the binding: stop at the bound
Bounded == nops <= MaxOps
=============================================================================
