------------------------------ MODULE WireMime ------------------------------
(***************************************************************************)
(* C03, byte-granular instance.  The decision procedure with which pymap   *)
(* turns an APPENDed literal into what FETCH returns, transcribed over     *)
(* sequences of BYTE CLASSES:                                              *)
(*                                                                         *)
(*   pymap/mime/__init__.py  MessageContent._find_lines  -> FindLines      *)
(*                           MessageContent._split_lines -> SplitAt        *)
(*   pymap/mime/_util.py     whitespace, find_any        -> IsWs, AllWs    *)
(*                           get_raw                     -> GetRaw         *)
(*   pymap/message.py        get_size / get_body /       -> size, bs1,     *)
(*                           _get_body_structure            BODY[1]        *)
(*   pymap/fetch.py          _get_partial                -> PyPartial      *)
(*                                                                         *)
(* Byte classes are read off the code's character tests: LF (data.find),   *)
(* CR (the byte before LF), the `whitespace` set of _util.py ({SP,HT,VT,FF}*)
(* = WS; CR and LF are members too), ':' (MessageHeader._find_folded), and *)
(* everything else: CH (printable), HI (8-bit), NUL - three classes the    *)
(* code does not distinguish, kept apart because the wire does.            *)
(*                                                                         *)
(* All offsets are 0-based as in Python; a span <<a, b>> is data[a:b].     *)
(*                                                                         *)
(* State = the string under construction.  TLC enumerates every string of  *)
(* length <= MaxLen; `pred` is what the transcribed code computes for it   *)
(* and `devs` the named deviations (known/C03.json ids) it is subject to.  *)
(* Fixed = the set of deviation names considered repaired: with            *)
(* Fixed = AllDevs the laws hold for every string (Ideal configuration,    *)
(* which also shows that the small repair described for each deviation is  *)
(* sufficient); with Fixed = {} the transcription is the tree as it is and *)
(* the invariants say that the laws fail for a string EXACTLY when one of  *)
(* the named deviations applies to it.                                     *)
(***************************************************************************)
EXTENDS Integers, Sequences, FiniteSets, TLC

CONSTANTS MaxLen,     \* bound on the length of the string
          Fixed       \* subset of AllDevs

VARIABLES s,          \* the string: a sequence of byte classes
          pred,       \* <<rawA, rawB, hdrA, hdrB, txtA, txtB, bs1>>
          devs        \* deviations whose trigger holds for s

vars == <<s, pred, devs>>

Classes == {"CR", "LF", "WS", "COLON", "CH", "HI", "NUL"}

AllDevs == {"WhitespaceOnlyTail", "NoSeparatorHeader",
            "BodystructureSizeIncludesHeader"}

\* the two get_raw deviations have one cause and one repair
RawRepaired == {"WhitespaceOnlyTail", "NoSeparatorHeader"} \cap Fixed # {}

IsWs(c) == c \in {"CR", "LF", "WS"}      \* _util.whitespace

Min(S) == CHOOSE x \in S : \A y \in S : x <= y
Max(S) == CHOOSE x \in S : \A y \in S : x >= y
Lo(a, b) == IF a <= b THEN a ELSE b
Hi(a, b) == IF a >= b THEN a ELSE b

---------------------------------------------------------------------------
(* MessageContent._find_lines: (start, end, next) per line; `end` excludes  *)
(* the LF and a CR immediately before it; the piece after the last LF is a  *)
(* line too (possibly empty).                                               *)

FindLF(str, start) ==
  LET I == {i \in start..(Len(str) - 1) : str[i + 1] = "LF"}
  IN IF I = {} THEN -1 ELSE Min(I)

RECURSIVE FindLines(_, _)
FindLines(str, start) ==
  LET idx == FindLF(str, start) IN
  IF idx < 0 THEN << <<start, Len(str), Len(str)>> >>
  ELSE LET e == IF idx - 1 >= start /\ str[idx] = "CR" THEN idx - 1 ELSE idx
       IN << <<start, e, idx + 1>> >> \o FindLines(str, idx + 1)

(* MessageContent._split_lines: the first line made of whitespace only (or  *)
(* empty) closes the header and belongs to it; no such line: no header.     *)

AllWs(str, a, b) == \A i \in a..(b - 1) : IsWs(str[i + 1])

SplitAt(str, lines) ==
  LET I == {i \in 1..Len(lines) : AllWs(str, lines[i][1], lines[i][2])}
  IN IF I = {} THEN 0 ELSE Min(I)

(* _util.get_raw(view, *groups): view[groups[0][0][0] : groups[-1][-1][2]], *)
(* IndexError -> start 0 / end -1.  Python slice semantics in PySlice.      *)

PySlice(n, a, b) ==
  LET bb == IF b < 0 THEN Hi(n + b, 0) ELSE Lo(b, n)
      aa == Lo(a, n)
  IN <<aa, Hi(aa, bb)>>

GetRawAsIs(n, groups) ==
  LET g1 == groups[1]
      gl == groups[Len(groups)]
      a == IF Len(g1) = 0 THEN 0 ELSE g1[1][1]
      b == IF Len(gl) = 0 THEN -1 ELSE gl[Len(gl)][3]
  IN PySlice(n, a, b)

(* the repair: take start from the first non-empty group, end from the last *)
(* non-empty group, and the empty slice when there is none                  *)
GetRawFixed(n, groups) ==
  LET NE == {i \in 1..Len(groups) : Len(groups[i]) > 0}
  IN IF NE = {} THEN <<0, 0>>
     ELSE LET gf == groups[Min(NE)]
              gl == groups[Max(NE)]
          IN PySlice(n, gf[1][1], gl[Len(gl)][3])

GetRaw(n, groups) ==
  IF RawRepaired THEN GetRawFixed(n, groups) ELSE GetRawAsIs(n, groups)

---------------------------------------------------------------------------
(* what FETCH returns for the whole message (non-multipart at this level:   *)
(* no class string of this alphabet spells a Content-Type header)           *)

HeaderLines(str) == LET L == FindLines(str, 0) IN SubSeq(L, 1, SplitAt(str, L))
BodyLines(str)   == LET L == FindLines(str, 0) IN SubSeq(L, SplitAt(str, L) + 1, Len(L))

RawSpan(str) == GetRaw(Len(str), <<HeaderLines(str), BodyLines(str)>>)  \* BODY[] RFC822
HdrSpan(str) == GetRaw(Len(str), <<HeaderLines(str)>>)                  \* BODY[HEADER]
TxtSpan(str) == GetRaw(Len(str), <<BodyLines(str)>>)                    \* BODY[TEXT], BODY[1]

SpanLen(sp) == sp[2] - sp[1]
Sub(str, sp) == SubSeq(str, sp[1] + 1, sp[2])

(* _get_body_structure: TextBodyStructure(size = len(msg)) where BODY[1]    *)
(* returns msg.body                                                         *)
Bs1(str) == IF "BodystructureSizeIncludesHeader" \in Fixed
            THEN SpanLen(TxtSpan(str)) ELSE SpanLen(RawSpan(str))

Pred(str) == LET r == RawSpan(str) h == HdrSpan(str) t == TxtSpan(str)
             IN <<r[1], r[2], h[1], h[2], t[1], t[2], Bs1(str)>>

(* triggers of the named deviations, as predicates of the INPUT             *)
SepIsLast(str) == LET L == FindLines(str, 0) IN SplitAt(str, L) = Len(L)

NoSep(str) == SplitAt(str, FindLines(str, 0)) = 0

Devs(str) ==
  (IF Len(str) > 0 /\ SepIsLast(str) /\ ~RawRepaired
   THEN {"WhitespaceOnlyTail"} ELSE {})
  \cup
  (IF Len(str) > 1 /\ NoSep(str) /\ ~RawRepaired
   THEN {"NoSeparatorHeader"} ELSE {})
  \cup
  (IF SpanLen(RawSpan(str)) # SpanLen(TxtSpan(str))
      /\ "BodystructureSizeIncludesHeader" \notin Fixed
   THEN {"BodystructureSizeIncludesHeader"} ELSE {})

---------------------------------------------------------------------------
(* fetch.py _get_partial: full[start:start+length]                          *)
PyPartial(full, o, k) == LET sp == PySlice(Len(full), o, o + k) IN Sub(full, sp)
(* RFC 3501 6.4.5: octets o .. o+k-1 of the text, truncated at its end,     *)
(* empty when o is beyond the end                                           *)
LawPartial(full, o, k) == SubSeq(full, o + 1, Lo(o + k, Len(full)))

---------------------------------------------------------------------------
Init == /\ s = <<>>
        /\ pred = Pred(<<>>)
        /\ devs = Devs(<<>>)

Extend(c) == /\ Len(s) < MaxLen
             /\ s' = s \o <<c>>
             /\ pred' = Pred(s')
             /\ devs' = Devs(s')

Next == \E c \in Classes : Extend(c)

Spec == Init /\ [][Next]_vars

---------------------------------------------------------------------------
(* The laws (C03 on one message).  Excused only through a named deviation.  *)

Raw == <<pred[1], pred[2]>>
Hdr == <<pred[3], pred[4]>>
Txt == <<pred[5], pred[6]>>

LawRaw  == Sub(s, Raw) = s                      \* BODY[] = RFC822 = b
LawSize == SpanLen(Raw) = Len(s)                \* RFC822.SIZE = len(b)
LawCat  == Sub(s, Hdr) \o Sub(s, Txt) = s       \* BODY[HEADER] . BODY[TEXT] = b
LawPart == pred[7] = SpanLen(Txt)               \* announced octets = len(BODY[1])
LawSlice == \A o \in 0..(Len(s) + 1), k \in 1..(Len(s) + 1) :
              PyPartial(Sub(s, Raw), o, k) = LawPartial(Sub(s, Raw), o, k)

TypeOK == /\ s \in Seq(Classes) /\ Len(s) <= MaxLen
          /\ devs \subseteq AllDevs

\* Ideal configuration (Fixed = AllDevs): every law, every string
Fidelity == LawRaw /\ LawSize /\ LawCat
PartSize == LawPart
Slices   == LawSlice

\* As-is configuration: a law fails only under its named deviation ...
OnlyKnown == /\ (~LawRaw \/ ~LawSize) => "WhitespaceOnlyTail" \in devs
             /\ (~LawCat) => devs \cap {"WhitespaceOnlyTail", "NoSeparatorHeader"} # {}
             /\ (~LawPart) => devs # {}
\* ... and the named deviation really makes the law fail (narrowness)
KnownDeviates == /\ "WhitespaceOnlyTail" \in devs => ~LawRaw /\ ~LawSize
                 /\ "NoSeparatorHeader" \in devs => LawRaw /\ ~LawCat
                 /\ "BodystructureSizeIncludesHeader" \in devs => ~LawPart
=============================================================================
