\* longer programs over a bigger universe (simulation only)
SPECIFICATION SpecAsIs
CONSTANTS
  CreateArgs <- SimCreate
  NameArgs <- SimName
  AppendArgs <- SimName
  SubArgs <- SimName
  RenameArgs <- SimRename
  ListQ <- SimListQ
  LsubQ <- SimListQ
  InitSets <- None
  MaxMsgs = 2
  MaxLen = 5
  AllOpen <- AllKnown
  Stores = {"dict", "pp", "fs"}
INVARIANT TypeOK
CHECK_DEADLOCK FALSE
