SPECIFICATION Spec
CONSTANTS
  Names = {"INBOX", "Box", "Arch"}
  MaxMsgs = 2
  MaxOps = 3
  MaxSel = 2
  MaxCrashes = 1
  FlagSet = {"S", "T"}
  AppendFlags = {{}, {"T"}}
  Dev = {"MoveKeepsSourceRecord"}
  Tol = {"MoveKeepsSourceRecord"}
  OtherFs = FALSE
  Virgin = FALSE
  Existing = {"Box"}
INVARIANT TypeOK
INVARIANT AckedSurvive
INVARIANT AckedFlagsPersist
INVARIANT NoUidReuse
INVARIANT ControlFilesReadable
INVARIANT AckedSubscriptionsPersist
INVARIANT AckedCreatesPersist
CHECK_DEADLOCK FALSE
