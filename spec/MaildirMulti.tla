------------------------------ MODULE MaildirMulti ------------------------------
(***************************************************************************)
(* C14, maildir: multi-message APPEND at filesystem-operation granularity.  *)
(* MaildirStore plus one command: APPEND f {..} {..} as the tree delivers   *)
(* it - BaseSession.append_messages calls MailboxData.append once per       *)
(* literal, so the program is the single-message program twice (file into   *)
(* new/ or cur/, then the uidlist record), the OK after the last one.       *)
(* Crash is enabled in every state, Restart adopts every file it finds.     *)
(*                                                                          *)
(* AppendAllOrNothing is the clause of the property ("if the command does   *)
(* not complete with OK, none of its messages is in the mailbox").  It is   *)
(* EXPECTED TO FAIL: the counterexample TLC prints (kill after the first    *)
(* message's link) is the maildir form of the open finding                  *)
(* MultiAppendOneByOne; c14.py requires the failure as long as the finding  *)
(* is open, i.e. the model shows what the crash enumeration exhibits.       *)
(* AppendNeverTorn is what does hold: the messages served after a restart   *)
(* are a PREFIX of the command's literals (never the second without the     *)
(* first) - the shape the observer's narrow signature relies on.            *)
(***************************************************************************)
EXTENDS MaildirStore

Others == <<dirs, files, ul, lockf, subsf, slock, temp, mem, sel, subsAcked, created, gone,
            infl, failed, nextKey, nextVal, nmsg, nops, nsel, ncrash, phase>>

BAppend2(f, fl) ==
  /\ CanBegin /\ Usable(f) /\ nmsg + 2 <= MaxMsgs
  /\ LET one == AddFile(f, SubOf(f)) \o AddRec(f)
     IN Start([NoCmd EXCEPT !.op = "Append2", !.f = f, !.key = nextKey, !.m = nmsg + 1,
                            !.fl = fl, !.old = {nmsg + 1, nmsg + 2}],
              Reset(f) \o one \o <<I("nextmsg", f, "", 0)>> \o one
              \o (IF sel # "" /\ sel # f THEN Reset(sel) ELSE <<>>) \o <<I("ack2", "", "", 0)>>, 1)
  /\ nextKey' = nextKey + 2 /\ nmsg' = nmsg + 2
  /\ UNCHANGED <<dirs, files, ul, lockf, subsf, slock, temp, mem, sel, created, seen,
                 gone, failed, nextVal, nsel, ncrash, phase, last>>

\* between the two deliveries: the loop of append_messages moves on to the next literal
\* (no filesystem call; the first message's UID is remembered for APPENDUID)
NextMsg ==
  /\ phase = "run" /\ prog # <<>> /\ prog[1].k = "nextmsg"
  /\ cur' = [cur EXCEPT !.key = @ + 1, !.m = @ + 1, !.uid = cur.nuid]
  /\ prog' = Tail(prog)
  /\ UNCHANGED <<Others, acked, seen, last>>

Ack2 ==
  /\ phase = "run" /\ prog # <<>> /\ prog[1].k = "ack2"
  /\ LET v == ul[cur.f].v
         a1 == [f |-> cur.f, v |-> v, uid |-> cur.uid, c |-> cur.m - 1, fl |-> cur.fl, cp |-> FALSE]
         a2 == [f |-> cur.f, v |-> v, uid |-> cur.nuid, c |-> cur.m, fl |-> cur.fl, cp |-> FALSE]
     IN /\ acked' = acked \cup {a1, a2}
        /\ seen' = seen \cup {<<cur.f, v, cur.uid, cur.m - 1, FALSE>>, <<cur.f, v, cur.nuid, cur.m, FALSE>>}
  /\ last' = [op |-> "Append2", uid |-> cur.nuid]
  /\ cur' = NoCmd /\ prog' = Tail(prog)
  /\ UNCHANGED Others

NextM == Next \/ (\E f \in Names, fl \in AppendFlags : BAppend2(f, fl)) \/ NextMsg \/ Ack2
SpecM == Init /\ [][NextM]_vars

ServedCids == UNION {{s.c : s \in Served(f)} : f \in Names}

\* the clause of the property (expected to fail on the tree as it is)
AppendAllOrNothing ==
  (Quiet /\ infl.op = "Append2") => ServedCids \cap infl.old = {}
\* what the one-by-one delivery does guarantee
AppendNeverTorn ==
  (Quiet /\ infl.op = "Append2") =>
     \A c \in ServedCids \cap infl.old : \A d \in infl.old : d < c => d \in ServedCids
\* and an acknowledged multi-APPEND left all of its messages (the "all" half)
AppendAckedAll ==
  (Quiet /\ last.op = "Append2" /\ infl.op = "none" /\ ncrash = 0) =>
     \A a \in {x \in acked : x.f \in Names} : \E s \in Served(a.f) : s.uid = a.uid /\ s.c = a.c
=============================================================================
