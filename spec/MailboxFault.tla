---------------------------- MODULE MailboxFault ----------------------------
(***************************************************************************)
(* MailboxSync plus the commands of C14 cut at their lock checkpoints, and *)
(* faults.  As the dict backend and BaseSession do it:                     *)
(*                                                                         *)
(*   MOVE u Box :  MoveTake (source write lock: pop the message, log the   *)
(*                 expunge) -> [checkpoint w:Box] -> MoveGive (destination *)
(*                 write lock: add it) -> MoveEnd (update_selected, OK)    *)
(*   APPEND x2  :  AppendOne -> [checkpoint w:INBOX] -> AppendOne ->       *)
(*                 AppendEnd (OK)                                          *)
(*   Fault(s)   :  the command's task is cancelled / a storage call raises *)
(*                 at the checkpoint it is parked at: the command ends     *)
(*                 without OK and what it carried is dropped               *)
(*                                                                         *)
(* Named deviations (both present in the tree, open known findings of C14):*)
(*   "MoveTakeBeforeGive"  take and give are two critical sections         *)
(*   "AppendOneByOne"      one critical section per message                *)
(* With a deviation off the corresponding command is one atomic step.      *)
(***************************************************************************)
EXTENDS MailboxSync

VARIABLES fpc,     \* fpc[s]: "no" | "give" | "moveend" | "app2" | "append"
          carry,   \* carry[s]: the message popped from the source, 0 = none
          added,   \* added[s]: UIDs this session's APPEND in flight has added so far
          lost,    \* history: messages that were in flight when a fault hit and are nowhere now
          halfapp, \* history: UIDs left behind by an APPEND that did not end with OK
          nfault

fvars == <<vars, fpc, carry, added, lost, halfapp, nfault>>

FInit == Init /\ fpc = [s \in Sess |-> "no"] /\ carry = [s \in Sess |-> 0]
              /\ added = [s \in Sess |-> {}] /\ lost = {} /\ halfapp = {} /\ nfault = 0

Quiet(s) == fpc[s] = "no"
Same == UNCHANGED <<sel, view, fkey, pend, prevU, prevF, prevR, smod, srec, out>>
HSame == UNCHANGED <<lost, halfapp, nfault>>

\* an ordinary (atomic) command of a session that has nothing in flight
Command == /\ Next
           /\ \A s \in Sess : (out'[s] # out[s] \/ sel'[s] # sel[s]) => Quiet(s)
           /\ UNCHANGED <<fpc, carry, added, lost, halfapp, nfault>>

MoveTake(s, u) ==
  /\ Quiet(s) /\ sel[s] = "rw" /\ u \in view[s] \cap ex /\ ncmd < MaxCmds /\ ncmd' = ncmd + 1
  /\ ex' = ex \ {u} /\ modrec' = LogSet(modrec, modhi, {u}, "exp") /\ modhi' = modhi + 1
  /\ UNCHANGED <<fl, rbit, maxuid>> /\ Same /\ HSame /\ UNCHANGED added
  /\ IF "MoveTakeBeforeGive" \in Devs
     THEN /\ carry' = [carry EXCEPT ![s] = u] /\ fpc' = [fpc EXCEPT ![s] = "give"] /\ UNCHANGED box
     ELSE /\ box' = box + 1 /\ fpc' = [fpc EXCEPT ![s] = "moveend"] /\ UNCHANGED carry

MoveGive(s) ==
  /\ fpc[s] = "give"
  /\ box' = box + 1 /\ carry' = [carry EXCEPT ![s] = 0] /\ fpc' = [fpc EXCEPT ![s] = "moveend"]
  /\ UNCHANGED <<ex, fl, rbit, maxuid, modhi, modrec, ncmd, added>> /\ Same /\ HSame

MoveEnd(s) ==
  /\ fpc[s] = "moveend"
  /\ StoreSame /\ UNCHANGED <<sel, ncmd>>
  /\ Sync(s, ex, fl, modrec, modhi, srec, <<>>, {}, FALSE, TRUE, "OK", <<>>)
  /\ fpc' = [fpc EXCEPT ![s] = "no"] /\ UNCHANGED <<carry, added>> /\ HSame

\* one message of an APPEND INBOX x2 (recent bookkeeping as in MailboxSync.AppendMsg, simplified:
\* the stored bit is used)
AppendOne(s) ==
  /\ fpc[s] \in {"no", "app2"} /\ maxuid < MaxUid
  /\ IF fpc[s] = "no" THEN ncmd < MaxCmds /\ ncmd' = ncmd + 1 ELSE UNCHANGED ncmd
  /\ LET u == maxuid + 1 IN
     /\ ex' = ex \cup {u} /\ maxuid' = u /\ fl' = [fl EXCEPT ![u] = {}]
     /\ rbit' = [rbit EXCEPT ![u] = TRUE]
     /\ modrec' = LogSet(modrec, modhi, {u}, "upd") /\ modhi' = modhi + 1
     /\ added' = [added EXCEPT ![s] = @ \cup {u}]
  /\ UNCHANGED <<box, carry>> /\ Same /\ HSame
  /\ fpc' = [fpc EXCEPT ![s] = IF fpc[s] = "no" /\ "AppendOneByOne" \in Devs THEN "app2"
                               ELSE "append"]
  \* without the deviation the second message goes in with the first, in the same step:
  \* modelled by letting "append" be reached only after both (see AppendBoth)

AppendEnd(s) ==
  /\ fpc[s] = "append"
  /\ fpc' = [fpc EXCEPT ![s] = "no"] /\ added' = [added EXCEPT ![s] = {}]
  /\ UNCHANGED <<vars, carry>> /\ HSame

\* cancellation / storage exception at the checkpoint the command is parked at
Fault(s) ==
  /\ fpc[s] \in {"give", "app2"} /\ nfault < 1 /\ nfault' = nfault + 1
  /\ lost' = IF fpc[s] = "give" THEN lost \cup {carry[s]} ELSE lost
  /\ halfapp' = IF fpc[s] = "app2" THEN halfapp \cup added[s] ELSE halfapp
  /\ carry' = [carry EXCEPT ![s] = 0] /\ added' = [added EXCEPT ![s] = {}]
  /\ fpc' = [fpc EXCEPT ![s] = "no"]
  /\ UNCHANGED vars

FNext == Command \/ \E s \in Sess : \/ \E u \in Uid : MoveTake(s, u)
                                    \/ MoveGive(s) \/ MoveEnd(s) \/ AppendOne(s) \/ AppendEnd(s)
                                    \/ Fault(s)
FSpec == FInit /\ [][FNext]_fvars

\* C14: at every instant a message being moved is in the source or the destination
NeverInLimbo == \A s \in Sess : carry[s] = 0
\* C14: nothing is lost by a fault
NothingLost == lost = {}
\* C14: a multi-message APPEND that did not complete with OK left nothing
AllOrNothing == halfapp \cap ex = {}

FConstr == ncmd <= MaxCmds
=============================================================================
