----------------------------- MODULE Trace_Sync -----------------------------
(***************************************************************************)
(* Observer for the selected-mailbox synchronisation properties.  It is    *)
(* the CLIENT of RFC 3501: it applies, in the order received, the untagged *)
(* responses the real server wrote (EXPUNGE n removes the n-th message and *)
(* renumbers, EXISTS n grows the mailbox to n, FETCH n tells about message *)
(* n), and every guard below is one clause of a property:                  *)
(*                                                                         *)
(*  C01_ExpungeInRange         EXPUNGE n with 1 <= n <= current count      *)
(*  C01_NoExpungeDuringSeqCmd  no EXPUNGE while answering a non-UID        *)
(*                             FETCH / STORE / SEARCH                      *)
(*  C01_ExistsNoShrink         EXISTS never shrinks the mailbox            *)
(*  C01_FetchInRange/Label     FETCH n labels the message the client holds *)
(*                             at n                                        *)
(*  C01_SearchInView           SEARCH results lie in the client's view     *)
(*  C01_CommandInterpreted     the messages a COPY/MOVE acted on (COPYUID) *)
(*                             are ones the client's numbers addressed     *)
(*  C01_ViewAtStart/AtTagged   the client's count and number->UID mapping  *)
(*                             equal the server's (glass box: _sorted)     *)
(*                             when the next command is interpreted and    *)
(*                             after every tagged response                 *)
(*  C02_ConvergedUids/Flags    at a quiescent point after NOOP/CHECK the   *)
(*                             client's UIDs and flags equal the mailbox   *)
(*  C16_IdlerUids/Flags        while idling, once nothing is runnable any  *)
(*                             more, the client is up to date              *)
(*  C16_DoneEndsOk/OtherEndsBad  DONE -> tagged OK, anything else -> BAD   *)
(*  C16_PushedBeforeEnd        when IDLE ends the client's view equals the *)
(*                             server's: nothing computed was left unsent  *)
(*                                                                         *)
(* The handlers are TOTAL: a failed clause is recorded in `bad` (with the  *)
(* line) and the rest of that trace is skipped, so a verdict always names  *)
(* the clause.  Batch idiom: one TLC run validates thousands of traces.    *)
(***************************************************************************)
EXTENDS Naturals, Sequences, FiniteSets, TLC, Json, IOUtils

Traces == JsonDeserialize(IOEnv.TRACE_FILE).traces
N == Len(Traces)
Sess == {"a", "b", "c", "d"}
Unknown == {"?"}

ASSUME \A i \in 1..N : TLCSet(i, <<0, "">>)

VARIABLES tid, l,
          cv,     \* cv[s]: the client's view, a sequence of UIDs (0 = not known yet)
          cf,     \* cf[s]: the client's flag belief per position (Unknown = never told)
          mode,   \* kind of the command in flight: none | seq | uid | other | idle | select
          base,   \* base[s]: the mailbox when "+ idling" was written (uids, flags)
          bad     \* "" or the first failed clause
vars == <<tid, l, cv, cf, mode, base, bad>>

ToSet(q) == {q[i] : i \in DOMAIN q}
RemoveAt(q, n) == [i \in 1..(Len(q) - 1) |-> IF i < n THEN q[i] ELSE q[i + 1]]
Fill(q, n, x) == [i \in 1..n |-> IF i <= Len(q) THEN q[i] ELSE x]
NoRecent(fs) == fs \ {"\\Recent"}

\* the client's view agrees with the server's (unknown entries are compatible)
Agrees(c, view) == /\ Len(c) = Len(view)
                   /\ \A i \in 1..Len(c) : c[i] = 0 \/ c[i] = view[i]

Init == /\ tid \in 1..N /\ l = 1
        /\ cv = [s \in Sess |-> <<>>]
        /\ cf = [s \in Sess |-> <<>>]
        /\ mode = [s \in Sess |-> "none"]
        /\ base = [s \in Sess |-> [uids |-> <<>>, flags |-> <<>>]]
        /\ bad = ""

Ev == Traces[tid][l]

Fail(c) == bad' = c /\ UNCHANGED <<cv, cf, mode>>
Ok == bad' = bad

Start(ev) ==
  IF ev.k = "select"
  THEN /\ cv' = [cv EXCEPT ![ev.s] = <<>>] /\ cf' = [cf EXCEPT ![ev.s] = <<>>]
       /\ mode' = [mode EXCEPT ![ev.s] = "select"] /\ Ok
  ELSE IF ev.selected /\ ~Agrees(cv[ev.s], ev.view) THEN Fail("C01_ViewAtStart")
  ELSE /\ mode' = [mode EXCEPT ![ev.s] = ev.k] /\ UNCHANGED <<cv, cf>> /\ Ok

Expunge(ev) ==
  LET s == ev.s IN
  IF ~(1 <= ev.n /\ ev.n <= Len(cv[s])) THEN Fail("C01_ExpungeInRange")
  ELSE IF mode[s] = "seq" THEN Fail("C01_NoExpungeDuringSeqCmd")
  ELSE /\ cv' = [cv EXCEPT ![s] = RemoveAt(@, ev.n)]
       /\ cf' = [cf EXCEPT ![s] = RemoveAt(@, ev.n)]
       /\ UNCHANGED mode /\ Ok

Exists(ev) ==
  LET s == ev.s IN
  IF ev.n < Len(cv[s]) THEN Fail("C01_ExistsNoShrink")
  ELSE /\ cv' = [cv EXCEPT ![s] = Fill(@, ev.n, 0)]
       /\ cf' = [cf EXCEPT ![s] = Fill(@, ev.n, Unknown)]
       /\ UNCHANGED mode /\ Ok

Fetch(ev) ==
  LET s == ev.s IN
  IF ~(1 <= ev.n /\ ev.n <= Len(cv[s])) THEN Fail("C01_FetchInRange")
  ELSE IF ev.uid # 0 /\ cv[s][ev.n] # 0 /\ cv[s][ev.n] # ev.uid THEN Fail("C01_FetchLabel")
  ELSE /\ cv' = IF ev.uid # 0 THEN [cv EXCEPT ![s][ev.n] = ev.uid] ELSE cv
       /\ cf' = IF ev.hasflags THEN [cf EXCEPT ![s][ev.n] = NoRecent(ToSet(ev.flags))] ELSE cf
       /\ UNCHANGED mode /\ Ok

Search(ev) ==
  LET s == ev.s
      ids == ToSet(ev.ids)
      known == ToSet(cv[s])
  IN IF \/ (~ev.uid /\ ~(ids \subseteq 1..Len(cv[s])))
        \/ (ev.uid /\ 0 \notin known /\ ~(ids \subseteq known))
     THEN Fail("C01_SearchInView")
     ELSE UNCHANGED <<cv, cf, mode>> /\ Ok

\* the client's own STORE.SILENT: it assumes the change it asked for when it sends
\* the command; FLAGS it is told afterwards override the assumption
Silent(ev) ==
  LET s == ev.s
      us == ToSet(ev.uids)
      fs == ToSet(ev.flags)
      app(old) == IF old = Unknown THEN Unknown
                  ELSE IF ev.op = "+" THEN old \cup fs
                  ELSE IF ev.op = "-" THEN old \ fs ELSE fs
  IN /\ cf' = [cf EXCEPT ![s] = [i \in 1..Len(@) |->
                   IF cv[s][i] \in us THEN NoRecent(app(@[i])) ELSE @[i]]]
     /\ UNCHANGED <<cv, mode>> /\ Ok

\* a refused STORE.SILENT: the assumption is withdrawn (flags unknown again)
Unsilent(ev) ==
  LET s == ev.s
      us == ToSet(ev.uids)
  IN /\ cf' = [cf EXCEPT ![s] = [i \in 1..Len(@) |->
                   IF cv[s][i] \in us THEN Unknown ELSE @[i]]]
     /\ UNCHANGED <<cv, mode>> /\ Ok

Tagged(ev) ==
  LET s == ev.s IN
  IF ~ev.selected
  THEN /\ cv' = [cv EXCEPT ![s] = <<>>] /\ cf' = [cf EXCEPT ![s] = <<>>]
       /\ mode' = [mode EXCEPT ![s] = "none"] /\ Ok
  ELSE IF ~Agrees(cv[s], ev.view)
       THEN Fail(IF mode[s] = "idle" THEN "C16_PushedBeforeEnd" ELSE "C01_ViewAtTagged")
  ELSE /\ cv' = [cv EXCEPT ![s] = ev.view]
       /\ mode' = [mode EXCEPT ![s] = "none"] /\ UNCHANGED cf /\ Ok

FlagsAgree(c, flags) ==
  \A i \in 1..Len(c) : c[i] = Unknown \/ c[i] = NoRecent(ToSet(flags[i]))

\* quiescent point after this session's NOOP/CHECK: truth = the mailbox
Probe(ev) ==
  LET s == ev.s IN
  IF cv[s] # ev.uids THEN Fail("C02_ConvergedUids")
  ELSE IF ~FlagsAgree(cf[s], ev.flags) THEN Fail("C02_ConvergedFlags")
  ELSE UNCHANGED <<cv, cf, mode>> /\ Ok

\* glass box while idling: the client's view must agree with the server's
IdleView(ev) ==
  LET s == ev.s IN
  IF ~Agrees(cv[s], ev.view) THEN Fail("C01_ViewWhileIdle")
  ELSE cv' = [cv EXCEPT ![s] = ev.view] /\ UNCHANGED <<cf, mode>> /\ Ok

\* "+ idling" has been written: remember the mailbox as it is now
IdleBase(ev) == /\ base' = [base EXCEPT ![ev.s] = [uids |-> ev.uids, flags |-> ev.flags]]
                /\ UNCHANGED <<cv, cf, mode>> /\ Ok

IdxOf(q, u) == CHOOSE i \in 1..Len(q) : q[i] = u

\* idling session, nothing runnable any more, no input given: every change made
\* since "+ idling" (message added, removed, flags changed) must have reached it
IdleCheck(ev) ==
  LET s == ev.s
      now == ToSet(ev.uids)
      was == ToSet(base[s].uids)
      flagNow(u) == NoRecent(ToSet(ev.flags[IdxOf(ev.uids, u)]))
      flagWas(u) == NoRecent(ToSet(base[s].flags[IdxOf(base[s].uids, u)]))
      chg == (now \ was) \cup (was \ now) \cup {u \in now \cap was : flagNow(u) # flagWas(u)}
      mine == ToSet(cv[s])
  IN IF \E u \in chg : (u \in now) # (u \in mine) THEN Fail("C16_IdlerUids")
     ELSE IF \E u \in chg \cap now : cf[s][IdxOf(cv[s], u)] # flagNow(u) THEN Fail("C16_IdlerFlags")
     ELSE UNCHANGED <<cv, cf, mode>> /\ Ok

\* DONE ends IDLE with the tagged OK, anything else with BAD
IdleEnd(ev) ==
  IF ev.input = "done" /\ ev.cond # "OK" THEN Fail("C16_DoneEndsOk")
  ELSE IF ev.input # "done" /\ ev.cond # "BAD" THEN Fail("C16_OtherEndsBad")
  ELSE UNCHANGED <<cv, cf, mode>> /\ Ok

\* COPYUID: the source UIDs are messages the CLIENT addressed (its sequence numbers as it
\* held them when it sent the command; expunged ones may be missing)
CopyUid(ev) ==
  IF ev.hasaddr /\ ~(ToSet(ev.src) \subseteq ToSet(ev.addressed)) THEN Fail("C01_CommandInterpreted")
  ELSE UNCHANGED <<cv, cf, mode>> /\ Ok

Handle(ev) ==
  CASE ev.e = "start"   -> Start(ev)
    [] ev.e = "expunge" -> Expunge(ev)
    [] ev.e = "exists"  -> Exists(ev)
    [] ev.e = "fetch"   -> Fetch(ev)
    [] ev.e = "search"  -> Search(ev)
    [] ev.e = "copyuid" -> CopyUid(ev)
    [] ev.e = "silent"  -> Silent(ev)
    [] ev.e = "unsilent" -> Unsilent(ev)
    [] ev.e = "tagged"  -> Tagged(ev)
    [] ev.e = "probe"   -> Probe(ev)
    [] ev.e = "idlecheck" -> IdleCheck(ev)
    [] ev.e = "idleend" -> IdleEnd(ev)
    [] ev.e = "idleview" -> IdleView(ev)
    [] ev.e = "idlebase" -> IdleBase(ev) /\ TRUE
    [] OTHER            -> UNCHANGED <<cv, cf, mode>> /\ Ok     \* notes (issue, step, ...)

Next == /\ l <= Len(Traces[tid])
        /\ bad = ""
        /\ Handle(Ev)
        /\ IF Ev.e = "idlebase" THEN TRUE ELSE UNCHANGED base
        /\ l' = l + 1 /\ tid' = tid

Spec == Init /\ [][Next]_vars

\* verdict register: <<line of the first failure (0 = none), clause>>
Record == IF bad # "" /\ TLCGet(tid)[2] = "" THEN TLCSet(tid, <<l - 1, bad>>) ELSE TRUE
Post == \A i \in 1..N : PrintT(<<"VERDICT", i, TLCGet(i)[1], TLCGet(i)[2]>>)
=============================================================================
