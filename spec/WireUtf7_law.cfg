SPECIFICATION Spec
CONSTANTS
  MaxLen = 3
  Fixed <- DevsNone
INVARIANT RoundTrip
