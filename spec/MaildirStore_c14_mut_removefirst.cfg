SPECIFICATION Spec
CONSTANTS
  Names = {"INBOX", "Box"}
  MaxMsgs = 2
  MaxOps = 3
  MaxSel = 2
  MaxCrashes = 1
  FlagSet = {"S"}
  AppendFlags = {{}}
  Dev = {"MoveKeepsSourceRecord", "MoveRemoveFirst"}
  Tol = {"MoveKeepsSourceRecord", "MoveRemoveFirst"}
  OtherFs = FALSE
  Virgin = FALSE
  Existing = {"Box"}
INVARIANT TypeOK
INVARIANT MoveNeverInLimbo
CHECK_DEADLOCK FALSE
