SPECIFICATION Spec
CONSTANTS
  MaxLen = 5
  Fixed <- AllDevs
INVARIANT TypeOK
INVARIANT SpellingLaw
INVARIANT ReserialiseLaw
INVARIANT FramingLaw
