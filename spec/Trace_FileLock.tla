--------------------------- MODULE Trace_FileLock ---------------------------
(***************************************************************************)
(* Implementation-shaped trace spec for FileLock (Atomic = TRUE): every    *)
(* recorded step of the real lock objects must be the FileLock action of   *)
(* that name on that task and leave the lock file and the tasks in the     *)
(* state the action computes.  Rejection = drift; violations are decided   *)
(* by Trace_LockObs (kinds "W"/"R").                                       *)
(***************************************************************************)
EXTENDS FileLock, Json, IOUtils

Traces == JsonDeserialize(IOEnv.TRACE_FILE).traces
N == Len(Traces)
ASSUME \A i \in 1..N : TLCSet(i, 0)

VARIABLES tid, l
tvars == <<vars, tid, l>>

TInit == /\ tid \in 1..N /\ l = 2
         /\ left = Traces[tid][1].left
         /\ file = Traces[tid][1].file /\ owner = "nobody"
         /\ pc = [t \in Task |-> IF left[t] = <<>> THEN "done" ELSE "idle"]
         /\ saw = [t \in Task |-> "none"]
         /\ tries = [t \in Task |-> 0]
         /\ nfault = 0

Ev == Traces[tid][l]
TNext == /\ l <= Len(Traces[tid])
         /\ \/ Ev.e = "begin" /\ BeginA(Ev.t)
            \/ Ev.e = "wake" /\ Wake(Ev.t)
            \/ Ev.e = "leave" /\ Exit(Ev.t)
            \/ Ev.e = "fault" /\ Fault(Ev.t)
         /\ pc' = Ev.pc /\ file' = Ev.file
         /\ l' = l + 1 /\ tid' = tid
TSpec == TInit /\ [][TNext]_tvars
Record == TLCSet(tid, IF TLCGet(tid) > l - 1 THEN TLCGet(tid) ELSE l - 1)
Post == \A i \in 1..N : PrintT(<<"VERDICT", i, TLCGet(i), Len(Traces[i])>>)
=============================================================================
