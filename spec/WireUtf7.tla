------------------------------ MODULE WireUtf7 ------------------------------
(***************************************************************************)
(* C18: modified UTF-7 (RFC 3501 5.1.3) as pymap/parsing/modutf7.py has it. *)
(* A NAME is a sequence of character classes                                *)
(*   CH    printable US-ASCII other than & - ,                              *)
(*   AMP & DASH - COMMA ,                                                   *)
(*   U     a non-ASCII character                                            *)
(*   CTLX  a control character that Python's utf-7 codec base64-encodes     *)
(*         (0x01, 0x7f, ...)                                                *)
(*   CTLD  a control character that Python's utf-7 codec writes DIRECTLY    *)
(*         (TAB, CR, LF) - the class exists because _modified_b64encode is  *)
(*         str.encode('utf-7')[1:-1]                                        *)
(* The ENCODED form is a sequence of tokens [k, c, run]: a literal byte of  *)
(* class c, or an opaque base64 text standing for the characters `run`.     *)
(*                                                                         *)
(*   modutf7_encode       -> Encode (Enc, the two-mode loop)                *)
(*   _modified_b64encode  -> B64Enc (Py7 = what str.encode('utf-7') emits,  *)
(*                           Strip = [1:-1])                                *)
(*   modutf7_decode       -> Decode (Dec, the two-mode loop; an unterminated *)
(*                           shift is decoded as the final shift since the  *)
(*                           fix a67d1aa: status "inexact")                 *)
(*                                                                         *)
(* Law: Decode(Encode(n)) = n for every name n, and the encoded form is     *)
(* well-formed modified UTF-7 (every shift is AMP, one base64 text, DASH).  *)
(***************************************************************************)
EXTENDS Integers, Sequences, FiniteSets, TLC

CONSTANTS MaxLen, Fixed

VARIABLES name, pred

vars == <<name, pred>>

NC == {"CH", "AMP", "DASH", "COMMA", "U", "CTLX", "CTLD"}
AllDevs == {"Utf7AmpAfterShift", "Utf7DirectControl"}
DevsNone == {}

Printable(c) == c \in {"CH", "AMP", "DASH", "COMMA"}      \* 0x20 .. 0x7e

Lit(c) == [k |-> "lit", c |-> c, run |-> <<>>]
B(run) == [k |-> "b64", c |-> "", run |-> run]

---------------------------------------------------------------------------
(* str.encode('utf-7') on a run of non-printables: stretches of U/CTLX are  *)
(* "+" base64 and a closing "-" only at the end of the string; CTLD bytes   *)
(* are copied                                                              *)
RECURSIVE StretchLen(_)
StretchLen(run) == IF run # <<>> /\ Head(run) # "CTLD" THEN 1 + StretchLen(Tail(run)) ELSE 0

RECURSIVE Py7(_)
Py7(run) ==
  IF run = <<>> THEN <<>>
  ELSE IF Head(run) = "CTLD" THEN <<Lit("CTLD")>> \o Py7(Tail(run))
  ELSE LET k == StretchLen(run)
           rest == SubSeq(run, k + 1, Len(run))
       IN <<Lit("PLUS"), B(SubSeq(run, 1, k))>>
          \o (IF rest = <<>> THEN <<Lit("DASH")>> ELSE <<>>) \o Py7(rest)

Strip(ts) == IF Len(ts) <= 1 THEN <<>> ELSE SubSeq(ts, 2, Len(ts) - 1)

B64Enc(run) == IF "Utf7DirectControl" \in Fixed THEN <<B(run)>> ELSE Strip(Py7(run))

(* modutf7_encode: i = position, st = start of the open run (0 = us-ascii   *)
(* mode)                                                                    *)
RECURSIVE Enc(_, _, _)
Enc(n, i, st) ==
  IF i > Len(n) THEN
    IF st = 0 THEN <<>>
    ELSE <<Lit("AMP")>> \o B64Enc(SubSeq(n, st, Len(n))) \o <<Lit("DASH")>>
  ELSE LET c == n[i] IN
    IF st = 0 THEN
      IF c = "AMP" THEN <<Lit("AMP"), Lit("DASH")>> \o Enc(n, i + 1, 0)
      ELSE IF Printable(c) THEN <<Lit(c)>> \o Enc(n, i + 1, 0)
      ELSE Enc(n, i + 1, i)
    ELSE
      IF Printable(c) THEN
        <<Lit("AMP")>> \o B64Enc(SubSeq(n, st, i - 1)) \o <<Lit("DASH")>>
        \o (IF c = "AMP" /\ "Utf7AmpAfterShift" \in Fixed
            THEN <<Lit("AMP"), Lit("DASH")>> ELSE <<Lit(c)>>)
        \o Enc(n, i + 1, 0)
      ELSE Enc(n, i + 1, st)

Encode(n) == Enc(n, 1, 0)

---------------------------------------------------------------------------
(* modutf7_decode.  Result: [out, st] with st in ok | inexact (the shift     *)
(* content is not one base64 text: what Python's utf-7 decoder makes of it - *)
(* other characters or UnicodeDecodeError - is not modelled)                 *)
IsLit(t, c) == t.k = "lit" /\ t.c = c

FindDash(ts, i) == LET I == {j \in i..Len(ts) : IsLit(ts[j], "DASH")}
                   IN IF I = {} THEN 0 ELSE CHOOSE j \in I : \A x \in I : j <= x

Worse(a, b) == IF "inexact" \in {a, b} THEN "inexact" ELSE "ok"

RECURSIVE Dec(_, _, _)
Dec(ts, i, shift) ==
  IF i > Len(ts) THEN
    \* `while buf` ends; an open shift decodes the empty text: '+-' -> '+'
    [out |-> IF shift THEN <<"CH">> ELSE <<>>, st |-> "ok"]
  ELSE IF ~shift THEN
    IF IsLit(ts[i], "AMP") /\ i + 1 <= Len(ts) /\ IsLit(ts[i + 1], "DASH")
    THEN LET r == Dec(ts, i + 2, FALSE) IN [out |-> <<"AMP">> \o r.out, st |-> r.st]
    ELSE IF IsLit(ts[i], "AMP") THEN Dec(ts, i + 1, TRUE)
    ELSE IF ts[i].k = "lit"
    THEN LET r == Dec(ts, i + 1, FALSE)
             c == IF ts[i].c = "PLUS" THEN "CH" ELSE ts[i].c
         IN [out |-> <<c>> \o r.out, st |-> r.st]
    ELSE LET r == Dec(ts, i + 1, FALSE)    \* base64 text outside a shift: plain characters
         IN [out |-> <<"CH">> \o r.out, st |-> Worse("inexact", r.st)]
  ELSE
    LET j == FindDash(ts, i) IN
    IF j = 0 THEN [out |-> <<>>, st |-> "inexact"]  \* no "-": the rest is the final shift
    ELSE LET content == SubSeq(ts, i, j - 1)
             r == Dec(ts, j + 1, FALSE)
         IN IF Len(content) = 1 /\ content[1].k = "b64"
            THEN [out |-> content[1].run \o r.out, st |-> r.st]
            ELSE [out |-> r.out, st |-> Worse("inexact", r.st)]

Decode(ts) == Dec(ts, 1, FALSE)

(* well-formed modified UTF-7: AMP DASH, or AMP b64 DASH, or a printable     *)
RECURSIVE WellFormed(_, _)
WellFormed(ts, i) ==
  IF i > Len(ts) THEN TRUE
  ELSE IF IsLit(ts[i], "AMP") THEN
    IF i + 1 <= Len(ts) /\ IsLit(ts[i + 1], "DASH") THEN WellFormed(ts, i + 2)
    ELSE i + 2 <= Len(ts) /\ ts[i + 1].k = "b64" /\ IsLit(ts[i + 2], "DASH")
         /\ WellFormed(ts, i + 3)
  ELSE ts[i].k = "lit" /\ Printable(ts[i].c) /\ WellFormed(ts, i + 1)

---------------------------------------------------------------------------
(* triggers of the named deviations (predicates of the name)                *)
AmpAfterRun(n) == \E i \in 2..Len(n) : n[i] = "AMP" /\ ~Printable(n[i - 1])
HasDirect(n) == \E i \in 1..Len(n) : n[i] = "CTLD"

Pred(n) == LET e == Encode(n) d == Decode(e)
           IN [enc |-> e, dec |-> d.out, st |-> d.st, wf |-> WellFormed(e, 1),
               devs |-> (IF AmpAfterRun(n) /\ "Utf7AmpAfterShift" \notin Fixed
                         THEN {"Utf7AmpAfterShift"} ELSE {})
                        \cup (IF HasDirect(n) /\ "Utf7DirectControl" \notin Fixed
                              THEN {"Utf7DirectControl"} ELSE {})]

Init == name = <<>> /\ pred = Pred(<<>>)
Extend(c) == /\ Len(name) < MaxLen
             /\ name' = name \o <<c>>
             /\ pred' = Pred(name')
Next == \E c \in NC : Extend(c)
Spec == Init /\ [][Next]_vars

---------------------------------------------------------------------------
TypeOK == name \in Seq(NC) /\ Len(name) <= MaxLen

RoundTrip == pred.st = "ok" /\ pred.dec = name
WellFormedOut == pred.wf

\* as-is: the laws fail only under a named deviation, and AmpAfterShift
\* always breaks the round trip (U AMP DASH even encodes to the well-formed
\* spelling of another name)
OnlyKnown == (~RoundTrip \/ ~WellFormedOut) => pred.devs # {}
KnownDeviates == "Utf7AmpAfterShift" \in pred.devs => ~RoundTrip
=============================================================================
