------------------------------- MODULE RWLock -------------------------------
(***************************************************************************)
(* pymap.concurrent._AsyncioReadWriteLock on top of asyncio.Lock, as the   *)
(* code is (CPython 3.12 locks.py; pymap/concurrent.py).  One action per   *)
(* stretch of code a task runs between two suspensions.                    *)
(*                                                                         *)
(* Variant = "fixed": the first reader takes the write mutex WHILE holding *)
(*   the reader mutex (the tree after the fix: commit).                    *)
(* Variant = "asis":  the pinned tree: the counter is bumped under the     *)
(*   reader mutex, the write mutex is awaited after it was released.       *)
(*                                                                         *)
(* asyncio.Lock: `locked`, FIFO deque of waiter futures; acquire() takes   *)
(* the fast path only when unlocked and every queued future is cancelled;  *)
(* release() unlocks and resolves the first future if it is still pending; *)
(* the woken task sets locked when it RUNS; a cancelled waiter, when it    *)
(* runs, leaves the deque and re-wakes the first waiter if unlocked.       *)
(***************************************************************************)
EXTENDS Naturals, Sequences, FiniteSets, TLC

CONSTANTS Task,        \* task identifiers
          MaxOps,      \* every task runs any program over {"r","w"} of length <= MaxOps
          MaxCancel,   \* how many cancellations may be injected
          Variant      \* "fixed" | "asis"

VARIABLES pc,          \* idle | rmw | ww | wlw | inR | inW | done | dead
          left,        \* left[t]: operations still to run
          rm, wl,      \* the two asyncio.Lock objects: [locked, q]
          counter,     \* _counter
          must,        \* must[t]: task.cancel() hit an already-resolved future
          ncancel

vars == <<pc, left, rm, wl, counter, must, ncancel>>

Pend == "pend"  Woken == "woken"  Canc == "canc"

LockT == [locked : BOOLEAN, q : Seq([t : Task, st : {Pend, Woken, Canc}])]

ProgSet == UNION {[1..n -> {"r", "w"}] : n \in 0..MaxOps}

Init == /\ left \in [Task -> ProgSet]
        /\ pc = [t \in Task |-> IF left[t] = <<>> THEN "done" ELSE "idle"]
        /\ rm = [locked |-> FALSE, q |-> <<>>]
        /\ wl = [locked |-> FALSE, q |-> <<>>]
        /\ counter = 0
        /\ must = [t \in Task |-> FALSE]
        /\ ncancel = 0

---------------------------------------------------------------------------
(* asyncio.Lock operators (pure) *)

CanFast(L) == ~L.locked /\ \A i \in 1..Len(L.q) : L.q[i].st = Canc

Enq(L, t) == [L EXCEPT !.q = Append(@, [t |-> t, st |-> Pend])]

WakeFirst(L) == IF L.q # <<>> /\ L.q[1].st = Pend
                THEN [L EXCEPT !.q[1].st = Woken] ELSE L

Release(L) == WakeFirst([L EXCEPT !.locked = FALSE])

Without(L, t) == [L EXCEPT !.q = SelectSeq(@, LAMBDA e : e.t # t)]

StatusIn(L, t) == LET idx == {i \in 1..Len(L.q) : L.q[i].t = t}
                  IN IF idx = {} THEN "none" ELSE L.q[CHOOSE i \in idx : TRUE].st

\* the woken task runs: leaves the deque, takes the lock
Take(L, t) == [Without(L, t) EXCEPT !.locked = TRUE]

\* the cancelled task runs: leaves the deque, re-wakes if unlocked
Abandon(L, t) == LET L2 == Without(L, t)
                 IN IF ~L2.locked THEN WakeFirst(L2) ELSE L2

---------------------------------------------------------------------------
(* after a finished / aborted operation *)

NextPc(t, rest) == IF rest = <<>> THEN "done" ELSE "idle"

\* reader holding the reader mutex `r` (already locked by t) decides about the
\* write mutex; yields the new <<pc, rm, wl, counter>>
ReaderWithMutex(t, r, w, c) ==
  IF c = 0
  THEN IF CanFast(w)
       THEN <<"inR", Release(r), [w EXCEPT !.locked = TRUE], 1>>
       ELSE <<"ww", r, Enq(w, t), 0>>
  ELSE <<"inR", Release(r), w, c + 1>>

Begin(t) ==
  /\ pc[t] = "idle" /\ left[t] # <<>>
  /\ UNCHANGED <<left, must, ncancel>>
  /\ IF Head(left[t]) = "w"
     THEN /\ UNCHANGED <<rm, counter>>
          /\ IF CanFast(wl)
             THEN wl' = [wl EXCEPT !.locked = TRUE] /\ pc' = [pc EXCEPT ![t] = "inW"]
             ELSE wl' = Enq(wl, t) /\ pc' = [pc EXCEPT ![t] = "wlw"]
     ELSE IF Variant = "fixed"
          THEN IF CanFast(rm)
               THEN LET res == ReaderWithMutex(t, [rm EXCEPT !.locked = TRUE], wl, counter)
                    IN /\ pc' = [pc EXCEPT ![t] = res[1]]
                       /\ rm' = res[2] /\ wl' = res[3] /\ counter' = res[4]
               ELSE /\ rm' = Enq(rm, t) /\ pc' = [pc EXCEPT ![t] = "rmw"]
                    /\ UNCHANGED <<wl, counter>>
          ELSE \* asis: counter bumped under the (never contended) reader mutex,
               \* write mutex awaited afterwards
               /\ counter' = counter + 1 /\ UNCHANGED rm
               /\ IF counter = 0
                  THEN IF CanFast(wl)
                       THEN wl' = [wl EXCEPT !.locked = TRUE] /\ pc' = [pc EXCEPT ![t] = "inR"]
                       ELSE wl' = Enq(wl, t) /\ pc' = [pc EXCEPT ![t] = "ww"]
                  ELSE UNCHANGED wl /\ pc' = [pc EXCEPT ![t] = "inR"]

\* a task whose future was resolved or cancelled gets to run
Runnable(t) ==
  \/ pc[t] = "rmw" /\ (StatusIn(rm, t) \in {Woken, Canc} \/ must[t])
  \/ pc[t] \in {"ww", "wlw"} /\ (StatusIn(wl, t) \in {Woken, Canc} \/ must[t])

Cancelled(t, L) == must[t] \/ StatusIn(L, t) = Canc

Resume(t) ==
  /\ Runnable(t)
  /\ UNCHANGED ncancel
  /\ must' = [must EXCEPT ![t] = FALSE]
  /\ CASE pc[t] = "wlw" ->
            /\ UNCHANGED <<rm, counter>>
            /\ IF Cancelled(t, wl)
               THEN /\ wl' = Abandon(wl, t)
                    /\ pc' = [pc EXCEPT ![t] = "dead"] /\ left' = [left EXCEPT ![t] = <<>>]
               ELSE /\ wl' = Take(wl, t)
                    /\ pc' = [pc EXCEPT ![t] = "inW"] /\ UNCHANGED left
       [] pc[t] = "ww" ->
            IF Cancelled(t, wl)
            THEN /\ wl' = Abandon(wl, t)
                 /\ pc' = [pc EXCEPT ![t] = "dead"] /\ left' = [left EXCEPT ![t] = <<>>]
                 /\ IF Variant = "fixed"
                    THEN rm' = Release(rm) /\ UNCHANGED counter   \* async with exits
                    ELSE UNCHANGED <<rm, counter>>                 \* counter stays bumped
            ELSE /\ wl' = Take(wl, t)
                 /\ pc' = [pc EXCEPT ![t] = "inR"] /\ UNCHANGED left
                 /\ IF Variant = "fixed"
                    THEN rm' = Release(rm) /\ counter' = counter + 1
                    ELSE UNCHANGED <<rm, counter>>
       [] pc[t] = "rmw" ->
            IF Cancelled(t, rm)
            THEN /\ rm' = Abandon(rm, t) /\ UNCHANGED <<wl, counter>>
                 /\ pc' = [pc EXCEPT ![t] = "dead"] /\ left' = [left EXCEPT ![t] = <<>>]
            ELSE LET res == ReaderWithMutex(t, Take(rm, t), wl, counter)
                 IN /\ pc' = [pc EXCEPT ![t] = res[1]] /\ UNCHANGED left
                    /\ rm' = res[2] /\ wl' = res[3] /\ counter' = res[4]

\* leave the critical section (normally, or because the task was cancelled
\* while parked inside it: `finally` runs the same release code)
Leave(t, dead) ==
  /\ pc[t] \in {"inR", "inW"}
  /\ UNCHANGED <<rm, must>>
  /\ IF pc[t] = "inW"
     THEN wl' = Release(wl) /\ UNCHANGED counter
     ELSE /\ counter' = counter - 1
          /\ wl' = IF counter = 1 THEN Release(wl) ELSE wl
  /\ IF dead
     THEN pc' = [pc EXCEPT ![t] = "dead"] /\ left' = [left EXCEPT ![t] = <<>>]
     ELSE /\ left' = [left EXCEPT ![t] = Tail(@)]
          /\ pc' = [pc EXCEPT ![t] = NextPc(t, Tail(left[t]))]

Exit(t) == Leave(t, FALSE) /\ UNCHANGED ncancel

Cancel(t) ==
  /\ ncancel < MaxCancel
  /\ ncancel' = ncancel + 1
  /\ \/ /\ pc[t] = "idle"
        /\ pc' = [pc EXCEPT ![t] = "dead"] /\ left' = [left EXCEPT ![t] = <<>>]
        /\ UNCHANGED <<rm, wl, counter, must>>
     \/ /\ pc[t] \in {"inR", "inW"} /\ Leave(t, TRUE)
     \/ /\ pc[t] \in {"rmw", "ww", "wlw"} /\ ~must[t]
        /\ LET L == IF pc[t] = "rmw" THEN rm ELSE wl
               i == CHOOSE i \in 1..Len(L.q) : L.q[i].t = t
           IN /\ L.q[i].st # Canc
              /\ IF L.q[i].st = Pend
                 THEN /\ IF pc[t] = "rmw"
                         THEN rm' = [rm EXCEPT !.q[i].st = Canc] /\ UNCHANGED wl
                         ELSE wl' = [wl EXCEPT !.q[i].st = Canc] /\ UNCHANGED rm
                      /\ UNCHANGED must
                 ELSE must' = [must EXCEPT ![t] = TRUE] /\ UNCHANGED <<rm, wl>>
        /\ UNCHANGED <<pc, left, counter>>

AllDone == \A t \in Task : pc[t] \in {"done", "dead"}

Terminated == AllDone /\ UNCHANGED vars

Next == \/ \E t \in Task : Begin(t) \/ Resume(t) \/ Exit(t) \/ Cancel(t)
        \/ Terminated

Spec == Init /\ [][Next]_vars /\ \A t \in Task : WF_vars(Begin(t) \/ Resume(t) \/ Exit(t))

---------------------------------------------------------------------------
(* properties *)

TypeOK == /\ pc \in [Task -> {"idle","rmw","ww","wlw","inR","inW","done","dead"}]
          /\ counter \in Nat
          /\ rm.locked \in BOOLEAN /\ wl.locked \in BOOLEAN

\* a writer's critical section overlaps nobody's
Excl == \A a, b \in Task : a # b /\ pc[a] = "inW" => pc[b] \notin {"inR", "inW"}

\* whoever is inside holds the write mutex
InsideHolds == (\E t \in Task : pc[t] \in {"inR", "inW"}) => wl.locked

\* usable after cancellation: the counter is exactly the readers inside
CounterExact == counter = Cardinality({t \in Task : pc[t] = "inR"})

\* the release path never has to wait (fixed variant): when a reader is inside
\* nobody holds the reader mutex across a suspension
ReleaseNeverBlocks == (\E t \in Task : pc[t] = "inR") => ~rm.locked

\* when everything is over the lock is as new
CleanAtEnd == AllDone => /\ ~wl.locked /\ ~rm.locked /\ counter = 0
                         /\ wl.q = <<>> /\ rm.q = <<>>

Progress == <>[]AllDone
=============================================================================
