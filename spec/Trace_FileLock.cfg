SPECIFICATION TSpec
CONSTANTS
  Task = {"t1", "t2", "t3"}
  MaxOps = 3
  MaxRetry = 2
  MaxFault = 99
  Atomic = TRUE
  StaleAtStart = FALSE
CONSTRAINT Record
POSTCONDITION Post
CHECK_DEADLOCK FALSE
INVARIANT WriterExcl
