----------------------------- MODULE CmdTokens -----------------------------
(***************************************************************************)
(* The input side of C06 at TOKEN level: a command line is a command word  *)
(* followed by up to MaxArgs abstract argument tokens.  TLC enumerates     *)
(* every line (one state per line: Extend appends a token); the harness    *)
(* concretises each line and sends it to the real server in the            *)
(* not-authenticated, authenticated and selected states.  The spec makes   *)
(* no prediction of WHICH completion is given - the obligation (exactly    *)
(* one tagged completion, or a continuation request, or BYE before close;  *)
(* no [SERVERBUG]; no hang; other connections still served) is checked on  *)
(* the recorded transcripts by Trace_Total.tla.                            *)
(*                                                                         *)
(* The same module enumerates stored MESSAGES as sequences of line tokens  *)
(* (Kind = "msg") for the "content of messages it stores" half.            *)
(***************************************************************************)
EXTENDS Naturals, Sequences, TLC

CONSTANTS Kind,      \* "cmd" | "msg" | "sieve"
          MaxArgs

Words == {"CAPABILITY", "NOOP", "LOGOUT", "ID", "STARTTLS", "LOGIN", "AUTHENTICATE",
          "SELECT", "EXAMINE", "CREATE", "DELETE", "RENAME", "SUBSCRIBE", "UNSUBSCRIBE",
          "LIST", "LSUB", "STATUS", "APPEND", "CHECK", "CLOSE", "EXPUNGE", "SEARCH",
          "FETCH", "STORE", "COPY", "MOVE", "UID", "IDLE", "BOGUS"}

\* argument tokens: legal spellings, truncated / malformed ones, hostile bytes
Args == {"ATOM", "QUOTED", "QUOTED_OPEN", "QUOTED_ESC", "LIT_SYNC", "LIT_PLUS", "LIT_ZERO",
         "LIT_HUGE", "LIT_BAD", "LIT_BIN", "LIST_EMPTY", "LIST_OPEN", "LIST_DEEP", "NUM",
         "NUM_HUGE", "SEQSET", "SEQSET_BAD", "STAR", "FLAGLIST", "FLAG_BAD", "MBX_INBOX",
         "MBX_UTF7", "MBX_UTF7_OPEN", "MBX_AMP", "EIGHTBIT", "NULBYTE", "BAD_UTF8", "DATE",
         "DATE_BAD", "SECTION", "SECTION_OPEN", "FETCHATT", "SEARCHKEY", "SEARCH_NESTED",
         "HEADERKEY_8BIT", "STOREITEM", "NOSPACE", "TRAILSP", "BARELF", "LONG"}

SieveWords == {"CAPABILITY", "NOOP", "LOGOUT", "STARTTLS", "AUTHENTICATE", "HAVESPACE",
               "PUTSCRIPT", "LISTSCRIPTS", "SETACTIVE", "GETSCRIPT", "DELETESCRIPT",
               "RENAMESCRIPT", "CHECKSCRIPT", "UNAUTHENTICATE", "BOGUS"}
SieveArgs == {"ATOM", "QUOTED", "QUOTED_OPEN", "QUOTED_ESC", "LIT_SYNC", "LIT_PLUS", "LIT_ZERO",
              "LIT_HUGE", "LIT_BAD", "NUM", "NUM_HUGE", "EIGHTBIT", "NULBYTE", "BAD_UTF8",
              "SCRIPT_OK", "SCRIPT_BAD", "NOSPACE", "TRAILSP", "BARELF", "LONG"}

\* message line tokens
Lines == {"HDR", "HDR_SUBJECT_CR", "HDR_CT_MULTI", "HDR_CT_MULTI_NOBOUND", "HDR_CT_RFC822",
          "HDR_CT_TEXT_PARAMS", "HDR_CTE_B64", "HDR_CTE_QP", "HDR_NOCOLON", "HDR_ENCWORD",
          "HDR_DATE_BAD", "HDR_ADDR_BAD", "FOLD", "BLANK", "WSONLY", "TEXT", "TEXT_8BIT",
          "TEXT_NUL", "BOUNDARY", "ENDBOUNDARY", "BARECR", "LONGLINE", "NOEOL"}

VARIABLE line
Init == line = <<>>

First == IF Kind = "cmd" THEN Words ELSE IF Kind = "sieve" THEN SieveWords ELSE Lines
Rest == IF Kind = "cmd" THEN Args ELSE IF Kind = "sieve" THEN SieveArgs ELSE Lines

Extend == /\ Len(line) <= MaxArgs
          /\ \E t \in (IF line = <<>> THEN First ELSE Rest) : line' = Append(line, t)

Spec == Init /\ [][Extend]_line

TypeOK == Len(line) <= MaxArgs + 1
=============================================================================
