----------------------------- MODULE CmdTokens -----------------------------
(***************************************************************************)
(* The input side of C06 at TOKEN level: a command line is a command word  *)
(* followed by up to MaxArgs abstract argument tokens.  TLC enumerates     *)
(* every line (one state per line: Extend appends a token); the harness    *)
(* concretises each line and sends it to the real server in the            *)
(* not-authenticated, authenticated and selected states.  The spec makes   *)
(* no prediction of WHICH completion is given - the obligation (exactly    *)
(* one tagged completion, or a continuation request, or BYE before close;  *)
(* no [SERVERBUG]; no hang; other connections still served) is checked on  *)
(* the recorded transcripts by Trace_Total.tla.                            *)
(*                                                                         *)
(* The same module enumerates stored MESSAGES as sequences of line tokens  *)
(* (Kind = "msg") for the "content of messages it stores" half.            *)
(***************************************************************************)
EXTENDS Naturals, Sequences, TLC

CONSTANTS Kind,      \* "cmd" | "msg" | "sieve" | "tmpl" | "hdr"
          MaxArgs

Words == {"CAPABILITY", "NOOP", "LOGOUT", "ID", "STARTTLS", "LOGIN", "AUTHENTICATE",
          "SELECT", "EXAMINE", "CREATE", "DELETE", "RENAME", "SUBSCRIBE", "UNSUBSCRIBE",
          "LIST", "LSUB", "STATUS", "APPEND", "CHECK", "CLOSE", "EXPUNGE", "SEARCH",
          "FETCH", "STORE", "COPY", "MOVE", "UID", "IDLE", "BOGUS"}

\* argument tokens: legal spellings, truncated / malformed ones, hostile bytes
Args == {"ATOM", "QUOTED", "QUOTED_OPEN", "QUOTED_ESC", "LIT_SYNC", "LIT_PLUS", "LIT_ZERO",
         "LIT_HUGE", "LIT_BAD", "LIT_BIN", "LIST_EMPTY", "LIST_OPEN", "LIST_DEEP", "NUM",
         "NUM_HUGE", "SEQSET", "SEQSET_BAD", "STAR", "FLAGLIST", "FLAG_BAD", "MBX_INBOX",
         "MBX_UTF7", "MBX_UTF7_OPEN", "MBX_AMP", "EIGHTBIT", "NULBYTE", "BAD_UTF8", "DATE",
         "DATE_BAD", "SECTION", "SECTION_OPEN", "FETCHATT", "SEARCHKEY", "SEARCH_NESTED",
         "HEADERKEY_8BIT", "STOREITEM", "NOSPACE", "TRAILSP", "BARELF", "LONG",
         \* added with the grammar-shaped lines below
         "NUM_DIGITS", "LIT_DIGITS", "CHARSET_ODD", "CHARSET_8BIT", "STATUSLIST", "LIT_MSG",
         "MBX_OTHER", "W_FETCH", "W_STORE", "W_COPY", "W_MOVE", "W_SEARCH", "W_EXPUNGE",
         "SASL_MECH", "ENABLE_ARG", "ZONE_ODD", "SECTION_ODDNAME"}

SieveWords == {"CAPABILITY", "NOOP", "LOGOUT", "STARTTLS", "AUTHENTICATE", "HAVESPACE",
               "PUTSCRIPT", "LISTSCRIPTS", "SETACTIVE", "GETSCRIPT", "DELETESCRIPT",
               "RENAMESCRIPT", "CHECKSCRIPT", "UNAUTHENTICATE", "BOGUS"}
SieveArgs == {"ATOM", "QUOTED", "QUOTED_OPEN", "QUOTED_ESC", "LIT_SYNC", "LIT_PLUS", "LIT_ZERO",
              "LIT_HUGE", "LIT_BAD", "NUM", "NUM_HUGE", "EIGHTBIT", "NULBYTE", "BAD_UTF8",
              "SCRIPT_OK", "SCRIPT_BAD", "NOSPACE", "TRAILSP", "BARELF", "LONG"}

\* message line tokens
Lines == {"HDR", "HDR_SUBJECT_CR", "HDR_CT_MULTI", "HDR_CT_MULTI_NOBOUND", "HDR_CT_RFC822",
          "HDR_CT_TEXT_PARAMS", "HDR_CTE_B64", "HDR_CTE_QP", "HDR_NOCOLON", "HDR_ENCWORD",
          "HDR_DATE_BAD", "HDR_ADDR_BAD", "FOLD", "BLANK", "WSONLY", "TEXT", "TEXT_8BIT",
          "TEXT_NUL", "BOUNDARY", "ENDBOUNDARY", "BARECR", "LONGLINE", "NOEOL"}

(***************************************************************************)
(* Grammar-shaped lines (Kind = "tmpl"): every command with the legal      *)
(* token in every argument slot, and every line one mutation away from     *)
(* such a line: one slot replaced by ANY argument token, the last slot     *)
(* dropped, or any token appended.  `mut` says which.  Random token pairs  *)
(* rarely get past the first argument; these lines reach the code behind   *)
(* the parser with exactly one thing wrong.                                *)
(***************************************************************************)
Templates ==
  { <<"CAPABILITY">>, <<"NOOP">>, <<"LOGOUT">>, <<"STARTTLS">>, <<"CHECK">>, <<"CLOSE">>,
    <<"EXPUNGE">>, <<"IDLE">>,
    <<"ID", "LIST_EMPTY">>, <<"LOGIN", "ATOM", "ATOM">>, <<"LOGIN", "QUOTED", "LIT_PLUS">>,
    <<"AUTHENTICATE", "SASL_MECH">>, <<"AUTHENTICATE", "SASL_MECH", "ATOM">>,
    <<"SELECT", "MBX_INBOX">>, <<"EXAMINE", "MBX_INBOX">>, <<"SELECT", "MBX_OTHER">>,
    <<"CREATE", "MBX_UTF7">>, <<"DELETE", "MBX_OTHER">>, <<"RENAME", "MBX_OTHER", "MBX_UTF7">>,
    <<"RENAME", "MBX_INBOX", "MBX_UTF7">>,
    <<"SUBSCRIBE", "MBX_OTHER">>, <<"UNSUBSCRIBE", "MBX_OTHER">>,
    <<"LIST", "QUOTED", "STAR">>, <<"LSUB", "QUOTED", "STAR">>, <<"LIST", "MBX_OTHER", "MBX_UTF7">>,
    <<"STATUS", "MBX_INBOX", "STATUSLIST">>, <<"STATUS", "MBX_OTHER", "STATUSLIST">>,
    <<"APPEND", "MBX_INBOX", "LIT_MSG">>, <<"APPEND", "MBX_OTHER", "FLAGLIST", "DATE", "LIT_MSG">>,
    <<"APPEND", "MBX_INBOX", "FLAGLIST", "LIT_MSG">>, <<"APPEND", "MBX_INBOX", "DATE", "LIT_MSG">>,
    <<"SEARCH", "SEARCHKEY">>, <<"SEARCH", "SEARCH_NESTED">>, <<"SEARCH", "SEQSET", "SEARCHKEY">>,
    <<"FETCH", "SEQSET", "FETCHATT">>, <<"FETCH", "SEQSET", "SECTION">>, <<"FETCH", "STAR", "FETCHATT">>,
    <<"STORE", "SEQSET", "STOREITEM", "FLAGLIST">>,
    <<"COPY", "SEQSET", "MBX_OTHER">>, <<"COPY", "SEQSET", "MBX_INBOX">>,
    <<"MOVE", "SEQSET", "MBX_OTHER">>, <<"MOVE", "SEQSET", "MBX_INBOX">>,
    <<"UID", "W_FETCH", "SEQSET", "FETCHATT">>, <<"UID", "W_FETCH", "SEQSET", "SECTION">>,
    <<"UID", "W_STORE", "SEQSET", "STOREITEM", "FLAGLIST">>,
    <<"UID", "W_COPY", "SEQSET", "MBX_OTHER">>, <<"UID", "W_MOVE", "SEQSET", "MBX_INBOX">>,
    <<"UID", "W_MOVE", "SEQSET", "MBX_OTHER">>,
    <<"UID", "W_SEARCH", "SEARCHKEY">>, <<"UID", "W_SEARCH", "SEQSET", "SEARCH_NESTED">>,
    <<"UID", "W_EXPUNGE", "SEQSET">> }

Mutants(t) ==
  {<<t, "none">>}
  \cup {<<[t EXCEPT ![p[1]] = p[2]], "replace">> :
           p \in {q \in (2..Len(t)) \X Args : q[2] # t[q[1]]}}
  \cup (IF Len(t) > 1 THEN {<<SubSeq(t, 1, Len(t) - 1), "drop">>} ELSE {})
  \cup {<<Append(t, a), "append">> : a \in Args}

(***************************************************************************)
(* Stored messages as <<header name, value class, frame>> (Kind = "hdr"):  *)
(* which code reads a header depends on its NAME (ENVELOPE, BODYSTRUCTURE, *)
(* threading, SEARCH keys), what goes wrong on its VALUE class, and where  *)
(* the header sits (top level, a MIME part, an encapsulated message).      *)
(***************************************************************************)
HdrNames == {"Date", "Subject", "From", "Sender", "Reply-To", "To", "Cc", "Bcc", "In-Reply-To",
             "Message-ID", "References", "Content-Type", "Content-Transfer-Encoding",
             "Content-Disposition", "Content-Language", "Content-Location", "Content-ID",
             "Content-Description", "MIME-Version", "Received", "X-Other"}
HdrVals == {"plain", "empty", "ws", "eightbit", "nul", "barecr", "encword", "encword_bad",
            "addr1", "addr_multi", "addr_group", "addr_group_empty", "addr_8bit", "addr_broken",
            "addr_route", "re_deep", "long", "folded", "quoted_odd", "date_ok", "date_bad",
            "msgid", "msgid_bad", "ct_multi", "ct_multi_nobound", "ct_rfc822", "ct_params_odd",
            "cte_b64", "cte_qp", "cte_unknown", "disp", "disp_odd", "lang_list", "semicolons",
            "comment", "utf8"}
Frames == {"top", "part", "nested", "deepmulti", "deeprfc",   \* deep*: under 60..700 levels of nesting
           "obscolon"}   \* top level, white space between the header name and the colon (RFC 5322 4.5: obsolete, legal)

VARIABLES line, mut
Init == IF Kind = "tmpl"
        THEN \E t \in Templates : \E m \in Mutants(t) : line = m[1] /\ mut = m[2]
        ELSE IF Kind = "hdr"
        THEN \E n \in HdrNames, v \in HdrVals, f \in Frames : line = <<n, v, f>> /\ mut = "none"
        ELSE line = <<>> /\ mut = "none"

First == IF Kind = "cmd" THEN Words ELSE IF Kind = "sieve" THEN SieveWords ELSE Lines
Rest == IF Kind = "cmd" THEN Args ELSE IF Kind = "sieve" THEN SieveArgs ELSE Lines

Extend == /\ Kind \notin {"tmpl", "hdr"}
          /\ Len(line) <= MaxArgs
          /\ \E t \in (IF line = <<>> THEN First ELSE Rest) : line' = Append(line, t)
          /\ UNCHANGED mut

Spec == Init /\ [][Extend]_<<line, mut>>

TypeOK == Len(line) <= MaxArgs + 1
=============================================================================
