SPECIFICATION Spec
CONSTANTS
  MaxLines = 7
  Prefix <- PrefixNest
  Alphabet <- AlphaNest
  Fixed <- DevsNone
INVARIANT TypeOK
INVARIANT OnlyKnown
INVARIANT KnownDeviates
