SPECIFICATION Spec
CONSTANTS
  Kind = "flag"
  MaxElems = 1
  Fixed <- DevsNone
INVARIANT RoundTrip
