------------------------------ MODULE Trace_RO ------------------------------
(***************************************************************************)
(* Observer for C12: nothing issued inside a read-only selection alters    *)
(* persistent state.  The harness logs, after the setup and after every    *)
(* tagged response of the session under test, a dump of the mailbox it has *)
(* selected read-only (UIDs, permanent flags, stored recent bits = what    *)
(* the next read-write session would be given) and of the backend-read-    *)
(* only mailbox "RO".  Other sessions only observe (FETCH without \Seen,   *)
(* NOOP, SEARCH, IDLE).  On the maildir backend the dump is read from the  *)
(* directory and dovecot-uidlist: "flags" carries the info letters and the *)
(* file size, the recent bit is "file in new/", row 0 is the UIDVALIDITY.  *)
(*                                                                         *)
(*  C12_Unchanged     every dump equals the baseline dump of that mailbox  *)
(*  C12_RecentConsumed  a message delivered into the examined mailbox      *)
(*                    while no read-write selection of it exists keeps     *)
(*                    its stored recent bit (the next read-write session   *)
(*                    must see it)                                         *)
(*  C12_RefusedNO     STORE, EXPUNGE, UID EXPUNGE in a read-only selection *)
(*                    and APPEND/COPY/MOVE into a read-only mailbox answer *)
(*                    NO                                                   *)
(*  C12_CloseOK       CLOSE of a read-only selection answers OK and ends   *)
(*                    the selection                                        *)
(***************************************************************************)
EXTENDS Naturals, Sequences, FiniteSets, TLC, Json, IOUtils

Traces == JsonDeserialize(IOEnv.TRACE_FILE).traces
N == Len(Traces)
ASSUME \A i \in 1..N : TLCSet(i, <<0, "">>)

VARIABLES tid, l, base, has, bad
vars == <<tid, l, base, has, bad>>

NoDump == [uids |-> <<>>, flags |-> <<>>, rbits |-> <<>>]
Boxes == {"INBOX", "RO", "Box"}

Init == /\ tid \in 1..N /\ l = 1 /\ base = [m \in Boxes |-> NoDump]
        /\ has = [m \in Boxes |-> FALSE] /\ bad = ""

Ev == Traces[tid][l]
D(ev) == [uids |-> ev.uids, flags |-> ev.flags, rbits |-> ev.rbits]

Rows(d) == {<<d.uids[i], d.flags[i], d.rbits[i]>> : i \in DOMAIN d.uids}
UidsOf(d) == {d.uids[i] : i \in DOMAIN d.uids}

\* messages that were there at the baseline are unchanged; messages delivered since (the
\* session under test may APPEND/COPY into the mailbox it examines: an ordinary delivery)
\* keep their stored recent bit when no read-write selection of the mailbox exists
Dump(ev) ==
  IF ~has[ev.mbx] THEN /\ base' = [base EXCEPT ![ev.mbx] = D(ev)]
                       /\ has' = [has EXCEPT ![ev.mbx] = TRUE] /\ bad' = bad
  ELSE LET b == base[ev.mbx]
           now == D(ev)
           newrows == {r \in Rows(now) : r[1] \notin UidsOf(b)}
       IN IF ~(Rows(b) \subseteq Rows(now)) THEN bad' = "C12_Unchanged" /\ UNCHANGED <<base, has>>
          ELSE IF ev.norw /\ \E r \in newrows : ~r[3]
               THEN bad' = "C12_RecentConsumed" /\ UNCHANGED <<base, has>>
          ELSE UNCHANGED <<base, has, bad>>

Mutating(c) == c[1] \in {"store", "expunge", "uidexpunge"}
Into(c) == IF c[1] = "append" THEN c[2] ELSE IF c[1] \in {"copy", "move"} THEN c[4] ELSE ""

\* ev.wasro: the session had a read-only selection when the command was sent
Tagged(ev) ==
  LET c == ev.cmd IN
  IF ev.wasro /\ Mutating(c) /\ ev.cond # "NO" THEN bad' = "C12_RefusedNO" /\ UNCHANGED <<base, has>>
  ELSE IF Into(c) = "RO" /\ ev.cond # "NO" THEN bad' = "C12_RefusedNO" /\ UNCHANGED <<base, has>>
  ELSE IF ev.wasro /\ c[1] = "close" /\ (ev.cond # "OK" \/ ev.selected)
       THEN bad' = "C12_CloseOK" /\ UNCHANGED <<base, has>>
  ELSE UNCHANGED <<base, has, bad>>

Next == /\ l <= Len(Traces[tid]) /\ bad = ""
        /\ CASE Ev.e = "dump" -> Dump(Ev)
             [] Ev.e = "tagged" /\ Ev.s = "a" -> Tagged(Ev)
             [] OTHER -> UNCHANGED <<base, has, bad>>
        /\ l' = l + 1 /\ tid' = tid

Spec == Init /\ [][Next]_vars
Record == IF bad # "" /\ TLCGet(tid)[2] = "" THEN TLCSet(tid, <<l - 1, bad>>) ELSE TRUE
Post == \A i \in 1..N : PrintT(<<"VERDICT", i, TLCGet(i)[1], TLCGet(i)[2]>>)
=============================================================================
