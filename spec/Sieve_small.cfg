SPECIFICATION Spec
CONSTANTS
  c1 = c1
  c2 = c2
  c3 = c3
  u1 = u1
  u2 = u2
  n1 = n1
  n2 = n2
  empty = empty
  s1 = s1
  s2 = s2
  bad = bad
  none = none
  Latitude = {"PutBadRefused", "PutBadStored", "AuthzRefused", "AuthzAsAuthcid"}
  Scope = "small"
  Profile = "dict"
  Open = {}
INVARIANT TypeOK
INVARIANT AtMostOneActive
INVARIANT ActiveIsStored
INVARIANT OnlyOwnUser
INVARIANT ListExact
PROPERTY Gate
PROPERTY DropDoesNothing
PROPERTY OnlyAuthAuthenticates
PROPERTY Isolation
PROPERTY PutThenGet
PROPERTY RenameKeeps
PROPERTY ActiveNotDeleted
PROPERTY MapFrame
PROPERTY SetActiveTakes
PROPERTY DeleteRemoves
INVARIANT Universes
