\* the tree as it is: RefusedInert is EXPECTED to be violated (open finding
\* MaildirTimeoutAfterEffect); RefusedConserves and MoveFileSomewhere are checked by
\* MaildirFail_conserve.cfg
SPECIFICATION SpecF
CONSTANTS
  Names = {"INBOX", "Box"}
  MaxMsgs = 2
  MaxOps = 3
  MaxSel = 2
  MaxCrashes = 0
  MaxFails = 1
  FlagSet = {"S"}
  AppendFlags = {{}}
  Dev = {"MoveKeepsSourceRecord"}
  Tol = {"MoveKeepsSourceRecord"}
  OtherFs = FALSE
  Virgin = FALSE
  Existing = {"Box"}
INVARIANT RefusedInert
CHECK_DEADLOCK FALSE
