---------------------------- MODULE WireMimeLines ----------------------------
(***************************************************************************)
(* C03, line-granular instance: nested MIME.  The message is a sequence of *)
(* LINE TOKENS plus a final-newline flag; the transcription is that of     *)
(* pymap/mime/__init__.py at the granularity at which it works on lines:   *)
(*                                                                         *)
(*   MessageContent._split_lines         -> Sep, HdrR, BodyR               *)
(*   MessageHeader._find_folds/_find_folded + ParsedHeaders.content_type   *)
(*                                       -> CType                          *)
(*   MessageBody._parse/_find_parts      -> PartRanges                     *)
(*   MessageContent._parse (recursive)   -> Walk                           *)
(*   _util.get_raw                       -> GetRaw (spans in line units)   *)
(*   message.py _get_subpart/get_body/_get_body_structure                  *)
(*                                       -> node.body is BODY[p],          *)
(*                                          node.size the announced octets *)
(*                                                                         *)
(* Tokens (one line each, the line terminator is chosen on concretisation):*)
(*   CT1  Content-Type: multipart/mixed; boundary=<b1>                     *)
(*   CT2  Content-Type: multipart/mixed; boundary=<b2>                     *)
(*   HDR  any other header line           FOLD  a folded continuation line *)
(*   BLANK the empty line                 WSL   a whitespace-only line     *)
(*   TEXT a line without colon that does not start with whitespace         *)
(*   BD1/BD2  --<b>                       END1/END2  --<b>--               *)
(*                                                                         *)
(* Every token other than BLANK and WSL is at least two bytes long.         *)
(* The code's line list of  EOL.join(toks) + (EOL if nl)  is toks, plus an *)
(* empty last line when nl (the piece after the last LF).                  *)
(*                                                                         *)
(* A span <<a, b>> in line units denotes data[S(a):E(b)] with S(a) = start *)
(* offset of line a (S(0) = 0), E(b) = `next` offset of line b (E(0) = 0,  *)
(* E(-1) = Python's -1).  The check turns spans into byte offsets with the *)
(* concrete line lengths.                                                  *)
(***************************************************************************)
EXTENDS Integers, Sequences, FiniteSets, TLC

CONSTANTS MaxLines,   \* bound on Len(toks)
          Prefix,     \* toks starts as this sequence
          Alphabet,   \* tokens that may be appended
          Fixed       \* deviations considered repaired

VARIABLES toks, nl, pred

vars == <<toks, nl, pred>>

Tokens == {"CT1", "CT2", "HDR", "FOLD", "BLANK", "WSL", "TEXT",
           "BD1", "END1", "BD2", "END2"}

AllDevs == {"WhitespaceOnlyTail", "NoSeparatorHeader", "PartEmptyGroupSlice",
            "BodystructureSizeIncludesHeader"}

RawRepaired == {"WhitespaceOnlyTail", "NoSeparatorHeader",
                "PartEmptyGroupSlice"} \cap Fixed # {}
SizeRepaired == "BodystructureSizeIncludesHeader" \in Fixed

\* values for the configuration files (cfg syntax has no tuples)
PrefixNone == <<>>
PrefixNest == <<"CT1", "BLANK">>
AlphaAll == Tokens
AlphaNest == {"CT2", "HDR", "BLANK", "TEXT", "BD1", "END1", "BD2", "END2"}
DevsNone == {}

Min(S) == CHOOSE x \in S : \A y \in S : x <= y
Max(S) == CHOOSE x \in S : \A y \in S : x >= y
Kth(S, j) == CHOOSE x \in S : Cardinality({y \in S : y < x}) = j - 1

Lines(tk, f) == tk \o (IF f THEN <<"BLANK">> ELSE <<>>)

IsBlank(t) == t \in {"BLANK", "WSL"}
EmptyR(r) == r[1] > r[2]

---------------------------------------------------------------------------
(* _split_lines on the line range lo..hi                                    *)
Sep(ln, lo, hi) == LET I == {i \in lo..hi : IsBlank(ln[i])}
                   IN IF I = {} THEN 0 ELSE Min(I)
HdrR(ln, lo, hi) == LET k == Sep(ln, lo, hi)
                    IN IF k = 0 THEN <<lo, lo - 1>> ELSE <<lo, k>>
BodyR(ln, lo, hi) == LET k == Sep(ln, lo, hi)
                     IN IF k = 0 THEN <<lo, hi>> ELSE <<k + 1, hi>>

(* the first Content-Type header among the header lines except the last one *)
(* (_find_folds: islice(lines, len(lines) - 1)); folded lines never open a  *)
(* header; lines without colon are dropped                                  *)
CType(ln, hr) == LET I == {i \in hr[1]..(hr[2] - 1) : ln[i] \in {"CT1", "CT2"}}
                 IN IF I = {} THEN "text" ELSE ln[Min(I)]

BdOf(ct)  == IF ct = "CT1" THEN "BD1" ELSE "BD2"
EndOf(ct) == IF ct = "CT1" THEN "END1" ELSE "END2"

(* _find_parts: stop at the first end-boundary line; every boundary line    *)
(* opens a part; lines before the first boundary are dropped                *)
PartRanges(ln, br, ct) ==
  LET E == {i \in br[1]..br[2] : ln[i] = EndOf(ct)}
      stop == IF E = {} THEN br[2] + 1 ELSE Min(E)
      P == {i \in br[1]..(stop - 1) : ln[i] = BdOf(ct)}
      n == Cardinality(P)
  IN [j \in 1..n |-> <<Kth(P, j) + 1,
                       (IF j = n THEN stop ELSE Kth(P, j + 1)) - 1>>]

(* get_raw over groups of line ranges                                       *)
GetRawAsIs(groups) ==
  LET g1 == groups[1]  gl == groups[Len(groups)]
  IN <<IF EmptyR(g1) THEN 0 ELSE g1[1], IF EmptyR(gl) THEN -1 ELSE gl[2]>>

GetRawFixed(groups) ==
  LET NE == {i \in 1..Len(groups) : ~EmptyR(groups[i])}
  IN IF NE = {} THEN <<0, 0>>
     ELSE <<groups[Min(NE)][1], groups[Max(NE)][2]>>

GetRaw(groups) == IF RawRepaired THEN GetRawFixed(groups) ELSE GetRawAsIs(groups)

RECURSIVE Cat(_)
Cat(ss) == IF ss = <<>> THEN <<>> ELSE Head(ss) \o Cat(Tail(ss))

(* deviations a node is subject to (triggers are predicates of the input)   *)
NodeDevs(ln, lo, hi, path, hr, br, leaf) ==
  (IF path = <<>> /\ ~RawRepaired /\ EmptyR(br) /\ ~EmptyR(hr)
   THEN {"WhitespaceOnlyTail"} ELSE {})
  \cup (IF path = <<>> /\ ~RawRepaired /\ EmptyR(hr) /\ ~EmptyR(br)
        THEN {"NoSeparatorHeader"} ELSE {})
  \cup (IF path # <<>> /\ ~RawRepaired /\ (EmptyR(hr) \/ EmptyR(br))
        THEN {"PartEmptyGroupSlice"} ELSE {})
  \cup (IF leaf /\ ~SizeRepaired /\ ~EmptyR(hr)
        THEN {"BodystructureSizeIncludesHeader"} ELSE {})

(* MessageContent._parse, recursively; the result is the walk of the tree   *)
RECURSIVE Walk(_, _, _, _)
Walk(ln, lo, hi, path) ==
  LET hr == HdrR(ln, lo, hi)
      br == BodyR(ln, lo, hi)
      ct == CType(ln, hr)
      prs == IF ct = "text" THEN <<>> ELSE PartRanges(ln, br, ct)
      raw == GetRaw(<<hr, br>>)
      body == GetRaw(<<br>>)
      leaf == ct = "text"
      node == [path |-> path, ct |-> ct, np |-> Len(prs),
               raw |-> raw, hdr |-> GetRaw(<<hr>>), body |-> body,
               size |-> IF SizeRepaired THEN body ELSE raw,
               dv |-> NodeDevs(ln, lo, hi, path, hr, br, leaf)]
  IN <<node>> \o Cat([j \in 1..Len(prs) |->
                       Walk(ln, prs[j][1], prs[j][2], path \o <<j>>)])

Pred(tk, f) == LET ln == Lines(tk, f) IN Walk(ln, 1, Len(ln), <<>>)

---------------------------------------------------------------------------
Init == /\ toks = Prefix
        /\ nl \in BOOLEAN
        /\ pred = Pred(toks, nl)

Extend(t) == /\ Len(toks) < MaxLines
             /\ toks' = toks \o <<t>>
             /\ nl' = nl
             /\ pred' = Pred(toks', nl')

Next == \E t \in Alphabet : Extend(t)

Spec == Init /\ [][Next]_vars

---------------------------------------------------------------------------
(* Laws in line-boundary coordinates, doubled so that Python's -1 (one byte *)
(* before the end) has a coordinate of its own.  An empty last line has no  *)
(* bytes: its two boundaries coincide.                                      *)

LN == Lines(toks, nl)
NB == IF Len(LN) > 0 /\ LN[Len(LN)] = "BLANK" THEN Len(LN) - 1 ELSE Len(LN)
Bd(i) == 2 * (IF i > NB THEN NB ELSE i)
IvA(a) == IF a = 0 THEN 0 ELSE Bd(a - 1)
IvB(b) == IF b = -1 THEN (IF Bd(Len(LN)) = 0 THEN 0 ELSE Bd(Len(LN)) - 1)
          ELSE Bd(b)
Iv(sp) == LET A == IvA(sp[1]) B == IvB(sp[2]) IN <<A, IF B < A THEN A ELSE B>>
Whole == <<0, Bd(Len(LN))>>
IsEmptyIv(iv) == iv[1] = iv[2]
\* iv1 followed by iv2 is exactly Whole
Covers(iv1, iv2) ==
  \/ IsEmptyIv(iv1) /\ iv2 = Whole
  \/ IsEmptyIv(iv2) /\ iv1 = Whole
  \/ iv1[1] = 0 /\ iv1[2] = iv2[1] /\ iv2[2] = Whole[2]

Top == pred[1]

TypeOK == /\ toks \in Seq(Tokens) /\ Len(toks) <= MaxLines
          /\ \A i \in 1..Len(pred) : pred[i].dv \subseteq AllDevs

Appendable == Len(toks) > 0 /\ Whole[2] > 0      \* b is not the empty string

LawRaw == Iv(Top.raw) = Whole
LawCat == Covers(Iv(Top.hdr), Iv(Top.body))
LawPartAt(i) == pred[i].ct = "text" => Iv(pred[i].size) = Iv(pred[i].body)

\* Ideal configuration
Fidelity == Appendable => LawRaw /\ LawCat
PartSize == Appendable => \A i \in 1..Len(pred) : LawPartAt(i)

\* As-is configuration
OnlyKnown ==
  Appendable =>
    /\ ~LawRaw => "WhitespaceOnlyTail" \in Top.dv
    /\ ~LawCat => Top.dv \cap {"WhitespaceOnlyTail", "NoSeparatorHeader"} # {}
    /\ \A i \in 1..Len(pred) : ~LawPartAt(i) => pred[i].dv # {}
KnownDeviates ==
  Appendable =>
    /\ "WhitespaceOnlyTail" \in Top.dv => ~LawRaw
    /\ "NoSeparatorHeader" \in Top.dv => LawRaw /\ ~LawCat
=============================================================================
