SPECIFICATION Spec
CONSTANTS
  MaxLen = 5
  Fixed <- DevsNone
INVARIANT TypeOK
INVARIANT OnlyKnown
INVARIANT KnownDeviates
