\* quick tier: hierarchy, rename with inferiors, implied parents, subscriptions
SPECIFICATION SpecAsIs
CONSTANTS
  CreateArgs <- HierQCreate
  NameArgs <- HierQName
  AppendArgs <- HierQAppend
  SubArgs <- HierQSub
  RenameArgs <- HierQRename
  ListQ <- HierListQ
  LsubQ <- HierLsubQ
  InitSets <- None
  MaxMsgs = 1
  MaxLen = 3
  AllOpen <- AllKnown
  Stores = {"dict", "pp", "fs"}
INVARIANT TypeOK
CHECK_DEADLOCK FALSE
