---------------------------- MODULE Trace_LockObs ----------------------------
(***************************************************************************)
(* Observer for C20: the property's clauses as guards over the enter/exit  *)
(* events recorded from the REAL lock objects.  A recorded execution is    *)
(* accepted iff every event is enabled in order.                           *)
(*   enter(t,"w") only when nobody is inside; enter(t,"r") only when no    *)
(*   writer is inside ("W"/"R" = the lock-FILE lock: two writers never     *)
(*   hold the file at once; its readers exclude nobody); exit only by      *)
(*   somebody inside; "end" (after the                                     *)
(*   harness let every surviving task run to completion) only when every   *)
(*   task finished (no deadlock, usable after cancellation) and the lock   *)
(*   object is released (granted write lock always released).              *)
(***************************************************************************)
EXTENDS Naturals, Sequences, FiniteSets, TLC, Json, IOUtils

Traces == JsonDeserialize(IOEnv.TRACE_FILE).traces
N == Len(Traces)

ASSUME \A i \in 1..N : TLCSet(i, 0)

VARIABLES tid, l, inside     \* inside: set of <<task, kind>>
vars == <<tid, l, inside>>

Init == tid \in 1..N /\ l = 1 /\ inside = {}

Ev == Traces[tid][l]

Enter == /\ Ev.e = "enter"
         /\ CASE Ev.k = "w" -> inside = {}                          \* rw-lock writer: alone
              [] Ev.k = "r" -> \A x \in inside : x[2] # "w"          \* rw-lock reader: no writer
              [] Ev.k = "W" -> \A x \in inside : x[2] # "W"          \* lock-file writer: no other writer
              [] OTHER -> TRUE                                       \* lock-file reader: no obligation
         /\ inside' = inside \cup {<<Ev.t, Ev.k>>}

Exit == /\ Ev.e = "exit"
        /\ <<Ev.t, Ev.k>> \in inside
        /\ inside' = inside \ {<<Ev.t, Ev.k>>}

\* scheduling / cancellation marks carry no obligation
Note == Ev.e \in {"begin", "resume", "cancel", "leave", "wake", "fault"} /\ UNCHANGED inside

End == /\ Ev.e = "end"
       /\ Ev.finished /\ Ev.released
       /\ inside = {}
       /\ UNCHANGED inside

Next == /\ l <= Len(Traces[tid])
        /\ (Enter \/ Exit \/ Note \/ End)
        /\ l' = l + 1 /\ tid' = tid

Spec == Init /\ [][Next]_vars

Record == TLCSet(tid, IF TLCGet(tid) > l - 1 THEN TLCGet(tid) ELSE l - 1)

Post == \A i \in 1..N : PrintT(<<"VERDICT", i, TLCGet(i), Len(Traces[i])>>)
=============================================================================
