----------------------------- MODULE Trace_Uids -----------------------------
(***************************************************************************)
(* Observer for C04 over recorded executions.  Mailbox identity = the      *)
(* object behind a name (glass box; it keeps its UIDVALIDITY through       *)
(* RENAME).  `arrive` events are taken from the store the instant a        *)
(* message becomes visible, with its content id.                           *)
(*                                                                         *)
(*  C04_Increasing    every UID given out in a mailbox identity is greater *)
(*                    than every UID ever given out there before (also     *)
(*                    after expunges): no (UIDVALIDITY, UID) reuse         *)
(*  C04_UidNextAbove  UIDNEXT reported by SELECT/EXAMINE/STATUS is greater *)
(*                    than every UID that existed when the command started *)
(*  C04_UidNextFloor  ... and not greater than any UID assigned afterwards *)
(*  C04_AppendUid     APPENDUID names the mailbox's UIDVALIDITY and exactly*)
(*                    the UIDs under which this command's messages became  *)
(*                    visible, in order                                    *)
(*  C04_CopyUid       COPYUID names the destination's UIDVALIDITY, as many *)
(*                    destination as source UIDs, every destination UID is *)
(*                    a message that arrived there, and the i-th pair has  *)
(*                    the same content                                     *)
(*  C04_UidDenotesOneMessage  a UID FETCHed in a selection names the        *)
(*                    message that was given this UID in the mailbox the    *)
(*                    session selected (ev.bound, the identity its          *)
(*                    UIDVALIDITY was announced for) - never another one    *)
(***************************************************************************)
EXTENDS Naturals, Sequences, FiniteSets, TLC, Json, IOUtils

Traces == JsonDeserialize(IOEnv.TRACE_FILE).traces
N == Len(Traces)
ASSUME \A i \in 1..N : TLCSet(i, <<0, "">>)

Objs == {"o1", "o2", "o3", "o4", "o5", "o6", "o7", "o8", "o9", "o10", "o11", "o12"}

VARIABLES tid, l,
          assigned,   \* assigned[o]: UIDs ever given out in mailbox identity o
          cid,        \* cid[o]: uid -> content id, as a set of <<uid, cid>>
          floor,      \* floor[o]: highest UIDNEXT reported so far
          bad
vars == <<tid, l, assigned, cid, floor, bad>>

ToSet(q) == {q[i] : i \in DOMAIN q}
Max(S) == IF S = {} THEN 0 ELSE CHOOSE x \in S : \A y \in S : y <= x
Min(S) == CHOOSE x \in S : \A y \in S : x <= y

Init == /\ tid \in 1..N /\ l = 1
        /\ assigned = [o \in Objs |-> {}] /\ cid = [o \in Objs |-> {}]
        /\ floor = [o \in Objs |-> 0] /\ bad = ""

Ev == Traces[tid][l]
Fail(c) == bad' = c /\ UNCHANGED <<assigned, cid, floor>>

Arrive(ev) ==
  LET o == ev.obj
      us == ToSet(ev.uids)
  IN IF o \notin Objs THEN UNCHANGED <<assigned, cid, floor, bad>>
     ELSE IF Min(us) <= Max(assigned[o]) THEN Fail("C04_Increasing")
     ELSE IF Min(us) < floor[o] THEN Fail("C04_UidNextFloor")
     ELSE /\ assigned' = [assigned EXCEPT ![o] = @ \cup us]
          /\ cid' = [cid EXCEPT ![o] = @ \cup {<<ev.uids[i], ev.cids[i]>> : i \in DOMAIN ev.uids}]
          /\ UNCHANGED <<floor, bad>>

UidNext(ev) ==
  LET o == ev.obj IN
  IF o \notin Objs THEN UNCHANGED <<assigned, cid, floor, bad>>
  ELSE IF ev.n <= ev.maxstart THEN Fail("C04_UidNextAbove")
  ELSE /\ floor' = [floor EXCEPT ![o] = IF ev.n > @ THEN ev.n ELSE @]
       /\ UNCHANGED <<assigned, cid, bad>>

AppendUid(ev) ==
  LET o == ev.obj IN
  IF o \notin Objs THEN UNCHANGED <<assigned, cid, floor, bad>>
  ELSE IF \/ ev.v # ev.realv
          \/ Len(ev.uids) # Len(ev.cids)
          \/ \E i \in DOMAIN ev.uids : <<ev.uids[i], ev.cids[i]>> \notin cid[o]
       THEN Fail("C04_AppendUid")
  ELSE UNCHANGED <<assigned, cid, floor, bad>>

HasCid(o, u) == \E p \in cid[o] : p[1] = u
TheCid(o, u) == (CHOOSE p \in cid[o] : p[1] = u)[2]

CopyUid(ev) ==
  LET so == ev.srcobj
      do == ev.dstobj
  IN IF so \notin Objs \/ do \notin Objs THEN UNCHANGED <<assigned, cid, floor, bad>>
     ELSE IF \/ ev.v # ev.realv
             \/ Len(ev.src) # Len(ev.dst)
             \/ \E i \in DOMAIN ev.dst : ~HasCid(do, ev.dst[i])
             \/ \E i \in DOMAIN ev.src : ~HasCid(so, ev.src[i])
             \/ \E i \in DOMAIN ev.src : Len(ev.src) = Len(ev.dst) /\ HasCid(do, ev.dst[i])
                                          /\ HasCid(so, ev.src[i])
                                          /\ TheCid(so, ev.src[i]) # TheCid(do, ev.dst[i])
          THEN Fail("C04_CopyUid")
     ELSE UNCHANGED <<assigned, cid, floor, bad>>

Fetch(ev) ==
  IF ev.cid # 0 /\ ev.uid # 0 /\ ev.bound \in Objs /\ HasCid(ev.bound, ev.uid)
     /\ TheCid(ev.bound, ev.uid) # ev.cid
  THEN Fail("C04_UidDenotesOneMessage")
  ELSE IF ev.cid # 0 /\ ev.uid # 0 /\ ev.bound \in Objs /\ ~HasCid(ev.bound, ev.uid)
  THEN Fail("C04_UidDenotesOneMessage")      \* a UID that was never given out there
  ELSE UNCHANGED <<assigned, cid, floor, bad>>

Next == /\ l <= Len(Traces[tid]) /\ bad = ""
        /\ CASE Ev.e = "arrive"    -> Arrive(Ev)
             [] Ev.e = "fetch"     -> Fetch(Ev)
             [] Ev.e = "uidnext"   -> UidNext(Ev)
             [] Ev.e = "appenduid" -> AppendUid(Ev)
             [] Ev.e = "copyuid"   -> CopyUid(Ev)
             [] OTHER              -> UNCHANGED <<assigned, cid, floor, bad>>
        /\ l' = l + 1 /\ tid' = tid

Spec == Init /\ [][Next]_vars
Record == IF bad # "" /\ TLCGet(tid)[2] = "" THEN TLCSet(tid, <<l - 1, bad>>) ELSE TRUE
Post == \A i \in 1..N : PrintT(<<"VERDICT", i, TLCGet(i)[1], TLCGet(i)[2]>>)
=============================================================================
