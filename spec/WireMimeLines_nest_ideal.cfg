SPECIFICATION Spec
CONSTANTS
  MaxLines = 6
  Prefix <- PrefixNest
  Alphabet <- AlphaNest
  Fixed <- AllDevs
INVARIANT TypeOK
INVARIANT Fidelity
INVARIANT PartSize
