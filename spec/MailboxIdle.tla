---------------------------- MODULE MailboxIdle ----------------------------
(***************************************************************************)
(* MailboxSync plus the IDLE loop (IMAPConnection.idle / handle_updates,   *)
(* ConnectionState.receive_updates, MailboxData.update_selected(wait_on)): *)
(*                                                                         *)
(*   IdleStart -> [ IdleArm -> (IdleWake) -> IdleDiff -> IdleWrite ]* ->   *)
(*   IdleDone                                                              *)
(*                                                                         *)
(* The wake-up is EDGE triggered: update_selected registers a fresh        *)
(* or_event listener each round and only a set() that happens after the    *)
(* registration fires it (MailboxData._updated is never cleared).          *)
(*                                                                         *)
(* Deviation (named): "IdleArmAfterDiff" - the pinned tree always arms and *)
(* waits; the repaired tree (fix: 2a736f2) waits only when the selection   *)
(* has consumed the whole change log, otherwise goes straight to the diff. *)
(*                                                                         *)
(* C16, safety encoding: WaitingMeansCurrent - an idler that is parked in  *)
(* the wait with its listener not signalled has nothing left to be told.   *)
(* C16, liveness (small instance, weak fairness on the idler's steps):     *)
(* every change is eventually consumed by the idler or IDLE has ended.     *)
(***************************************************************************)
EXTENDS MailboxSync

VARIABLES ipc,      \* ipc[s]: "no" | "arm" | "wait" | "diff" | "write"
          armed,    \* a listener of s is registered on the mailbox event
          sig       \* ... and has been signalled

ivars == <<vars, ipc, armed, sig>>

IInit == Init /\ ipc = [s \in Sess |-> "no"] /\ armed = [s \in Sess |-> FALSE]
              /\ sig = [s \in Sess |-> FALSE]

\* every logged change does _updated.set(): it fires the listeners registered NOW
Signals == sig' = [t \in Sess |-> sig[t] \/ (armed[t] /\ modhi' # modhi)]

\* an ordinary command of a session that is not idling
Command == /\ Next
           /\ \A s \in Sess : (out'[s] # out[s] \/ sel'[s] # sel[s]) => ipc[s] = "no"
           /\ Signals /\ UNCHANGED <<ipc, armed>>

IdleStart(s) == /\ ipc[s] = "no" /\ sel[s] # "none" /\ ncmd < MaxCmds
                /\ ipc' = [ipc EXCEPT ![s] = "arm"]
                /\ ncmd' = ncmd + 1
                /\ UNCHANGED <<ex, fl, rbit, maxuid, modhi, modrec, box, sel, view, fkey, pend,
                               prevU, prevF, prevR, smod, srec, out, armed, sig>>

\* update_selected(wait_on=done): register the listener and wait - or not
IdleArm(s) == /\ ipc[s] = "arm"
              /\ IF "IdleArmAfterDiff" \in Devs \/ smod[s] = modhi
                 THEN /\ armed' = [armed EXCEPT ![s] = TRUE] /\ sig' = [sig EXCEPT ![s] = FALSE]
                      /\ ipc' = [ipc EXCEPT ![s] = "wait"]
                 ELSE /\ ipc' = [ipc EXCEPT ![s] = "diff"] /\ UNCHANGED <<armed, sig>>
              /\ UNCHANGED vars

IdleWake(s) == /\ ipc[s] = "wait" /\ sig[s]
               /\ armed' = [armed EXCEPT ![s] = FALSE] /\ sig' = [sig EXCEPT ![s] = FALSE]
               /\ ipc' = [ipc EXCEPT ![s] = "diff"]
               /\ UNCHANGED vars

\* find_updated + fork: the untagged responses are computed (out[s]) ...
IdleDiff(s) == /\ ipc[s] = "diff"
               /\ StoreSame /\ UNCHANGED <<sel, ncmd>>
               /\ Sync(s, ex, fl, modrec, modhi, srec, <<>>, {}, FALSE, FALSE, "PUSH", <<>>)
               /\ ipc' = [ipc EXCEPT ![s] = "write"] /\ UNCHANGED <<armed, sig>>

\* ... and written (drain may take arbitrarily long: other sessions act meanwhile)
IdleWrite(s) == /\ ipc[s] = "write"
                /\ ipc' = [ipc EXCEPT ![s] = "arm"]
                /\ UNCHANGED <<vars, armed, sig>>

\* DONE: the done event fires the or_event too; the loop ends, tagged OK
IdleDone(s) == /\ ipc[s] \in {"arm", "wait"}
               /\ ipc' = [ipc EXCEPT ![s] = "no"]
               /\ armed' = [armed EXCEPT ![s] = FALSE] /\ sig' = [sig EXCEPT ![s] = FALSE]
               /\ UNCHANGED vars

IdleStep(s) == IdleArm(s) \/ IdleWake(s) \/ IdleDiff(s) \/ IdleWrite(s)
INext == Command \/ \E s \in Sess : IdleStart(s) \/ IdleStep(s) \/ IdleDone(s)

ISpec == IInit /\ [][INext]_ivars /\ \A s \in Sess : WF_ivars(IdleStep(s))

\* C16 (safety): parked in the wait, not signalled => nothing left to tell
WaitingMeansCurrent ==
  \A s \in Sess : (ipc[s] = "wait" /\ ~sig[s]) => (smod[s] = modhi /\ pend[s] = {})

\* C16 (liveness): whatever is in the log is eventually consumed, or IDLE ends
EventuallyTold == \A s \in Sess : [](ipc[s] # "no" => <>(ipc[s] = "no" \/ smod[s] = modhi))

IConstr == ncmd <= MaxCmds
=============================================================================
