------------------------- MODULE Trace_ConserveKill -------------------------
(***************************************************************************)
(* Observer for the maildir half of C14: the fault is a PROCESS KILL at a   *)
(* filesystem-operation boundary.  One trace = one run of the real maildir  *)
(* backend (harness/checks/maildir_crash.py, run_job14):                    *)
(*                                                                          *)
(*   pre    every mailbox (uid, content id, flags) as a restarted server    *)
(*          serves it when the process stops right BEFORE the command under *)
(*          test is sent (after the session's SELECT and after a second     *)
(*          session's complete command, if the history has one)             *)
(*   cmd    the command under test: op (move / copy / append / expunge /    *)
(*          uidexpunge / close / raw), the selected mailbox (src), the      *)
(*          destination (dst), the content ids it names (cids; for APPEND   *)
(*          the ids of its literals, in order) and their number n           *)
(*   ack    the tagged response that was on record when the process died    *)
(*          (the output stream is logged write by write): cond OK / NO /    *)
(*          BAD / NONE (killed first) / BYE, its response code, the         *)
(*          COPYUID pairs <<source uid, destination uid>>                   *)
(*   kill   k = -1: not killed; else the process was os._exit()ed           *)
(*          immediately before filesystem operation k (counted from the     *)
(*          command's first one) of L; delivered = how many message files   *)
(*          the command had linked into new/ or cur/ by then.               *)
(*          kind = "fail": no kill - filesystem operation k was NOT         *)
(*          performed and raised OSError(errno) instead (a failing system   *)
(*          call: ENOSPC, EIO, EXDEV), the command went on to whatever end  *)
(*          it took, and the process was then stopped as in k = -1;         *)
(*          delivered counts all message files the command linked           *)
(*   post   every mailbox as served by a NEW backend instance on the same   *)
(*          directory (stale lock files aged past their expiry first)       *)
(*                                                                          *)
(* Clauses (= the clauses of the property; the observer is total and        *)
(* records the first one that fails):                                       *)
(*  C14_NeverInLimbo    every content id a mailbox held before the command  *)
(*                      is in that mailbox after the restart - for the      *)
(*                      source of a MOVE: in the source or the destination  *)
(*                      - unless it was \Deleted in the mailbox on which    *)
(*                      EXPUNGE / UID EXPUNGE / CLOSE was the command       *)
(*  C14_MoveExactlyOne  MOVE acknowledged with OK: every moved message      *)
(*                      (COPYUID pair) is in the destination under the UID  *)
(*                      COPYUID names and no longer in the source; no       *)
(*                      message the command named is in both mailboxes      *)
(*  C14_AllOrNothing    multi-message APPEND: not acknowledged with OK =>   *)
(*                      none of its messages is in any mailbox;             *)
(*                      acknowledged => all of them are in the destination  *)
(*  C14_RefusedInert    answered NO or BAD: the list of mailboxes and every *)
(*                      mailbox's (uid, content id, flags) are as before    *)
(* A message that exists twice after a kill in the middle of a MOVE / COPY  *)
(* is not a violation: before completion the property allows "both".        *)
(*                                                                          *)
(* Named deviation, tolerated ONLY when it is an OPEN known finding         *)
(* (Data.known) and only on its narrow signature; everything else is still  *)
(* checked and the trace reports that it needed it (used):                  *)
(*  MultiAppendOneByOne (maildir form)  the kill fell after the command had *)
(*                      linked d >= 1 of its message files, no tagged       *)
(*                      response was produced, and the messages present     *)
(*                      are EXACTLY the first d literals of the command     *)
(*                      (BaseSession.append_messages delivers one by one);  *)
(*                      with a failing system call: the command ended       *)
(*                      without OK (BYE / NO) and the messages present are  *)
(*                      exactly the first d literals                        *)
(*  MaildirTimeoutAfterEffect  the failing call was the removal of a        *)
(*                      dovecot-uidlist.lock, so the lock file stayed; a    *)
(*                      LATER lock acquisition of the same command timed    *)
(*                      out on it and the command answered NO [TIMEOUT]     *)
(*                      although messages had already been copied / moved / *)
(*                      delivered.  Excuses C14_RefusedInert only (and the  *)
(*                      NO of a half-applied multi-APPEND); no message may  *)
(*                      be lost and nothing but the command's own effect    *)
(*                      may show.                                           *)
(***************************************************************************)
EXTENDS Naturals, Sequences, FiniteSets, TLC, Json, IOUtils

Data == JsonDeserialize(IOEnv.TRACE_FILE)
Traces == Data.traces
Known == {Data.known[i] : i \in DOMAIN Data.known}
N == Len(Traces)
ASSUME \A i \in 1..N : TLCSet(i, <<0, "", {}>>)

VARIABLES tid, l,
          pre,      \* <<>> or <<the pre event>>
          cmd, ack, kill,
          used, bad
vars == <<tid, l, pre, cmd, ack, kill, used, bad>>

ToSet(q) == {q[i] : i \in DOMAIN q}
Deleted == "\\Deleted"
ONEBYONE == "MultiAppendOneByOne"
TIMEOUTAFTER == "MaildirTimeoutAfterEffect"

Init == /\ tid \in 1..N /\ l = 1
        /\ pre = <<>> /\ cmd = <<>> /\ ack = <<>> /\ kill = <<>>
        /\ used = {} /\ bad = ""

Ev == Traces[tid][l]
Fail(c) == bad' = c /\ UNCHANGED <<pre, cmd, ack, kill, used>>

-----------------------------------------------------------------------------
\* dumps

Boxes(d) == ToSet(d.boxes)
Names(d) == {b.f : b \in Boxes(d)}
\* a mailbox that could not be dumped serves nothing
Msgs(d, f) == UNION {ToSet(b.msgs) : b \in {x \in Boxes(d) : x.f = f /\ x.ok}}
Cids(d, f) == {m.c : m \in Msgs(d, f)}
Rows(d, f) == {<<m.uid, m.c, ToSet(m.fl)>> : m \in Msgs(d, f)}
Anywhere(d) == UNION {Cids(d, f) : f \in Names(d)}

-----------------------------------------------------------------------------
\* the judgement, at the post-restart dump

Judge(post) ==
  LET P == pre[1]
      C == cmd[1]
      A == ack[1]
      K == kill[1]
      expunging == C.op \in {"expunge", "uidexpunge", "close"}
      MayVanish(f, m) == expunging /\ f = C.src /\ Deleted \in ToSet(m.fl)
      Home(f, c) == \/ c \in Cids(post, f)
                    \/ C.op = "move" /\ f = C.src /\ c \in Cids(post, C.dst)
      limbo == \E f \in Names(P) : \E m \in Msgs(P, f) : ~MayVanish(f, m) /\ ~Home(f, m.c)
      \* a completed MOVE
      pairs == {<<A.pairs[i][1], A.pairs[i][2]>> : i \in DOMAIN A.pairs}
      Arrived(m, du) == \E d \in Msgs(post, C.dst) : d.uid = du /\ d.c = m.c
      notExactlyOne ==
        C.op = "move" /\ A.cond = "OK" /\
        \/ \E p \in pairs : \E m \in Msgs(P, C.src) :
              m.uid = p[1] /\ (~Arrived(m, p[2]) \/ (C.src # C.dst /\ m.c \in Cids(post, C.src)))
        \/ C.src # C.dst /\ \E c \in ToSet(C.cids) \cap Cids(P, C.src) :
              c \in Cids(post, C.src) /\ c \in Cids(post, C.dst)
      \* multi-message APPEND
      multi == C.op = "append" /\ C.n > 1
      mine == ToSet(C.cids)
      present == mine \cap Anywhere(post)
      firstD == {C.cids[i] : i \in {j \in DOMAIN C.cids : j <= K.delivered}}
      oneByOne == /\ K.k >= 0 /\ K.delivered >= 1
                  /\ (A.cond = "NONE" \/ (K.kind = "fail" /\ A.cond # "OK"))
                  /\ present = firstD
      halfApplied == multi /\ A.cond # "OK" /\ present # {}
      notAll == multi /\ A.cond = "OK" /\ ~(mine \subseteq Cids(post, C.dst))
      \* refused
      changed == A.cond \in {"NO", "BAD"} /\
                 (\/ Names(P) # Names(post)
                  \/ \E f \in Names(P) : Rows(P, f) # Rows(post, f))
      \* the lock file left behind by the failing call, the command's later step timed out
      timeoutAfter == /\ K.kind = "fail" /\ K.k >= 0 /\ K.before = "unlink(uidlist.lock)"
                      /\ A.cond = "NO" /\ A.code = "TIMEOUT"
                      /\ C.op \in {"move", "copy", "append"}
                      \* nothing but the command's own effect: no mailbox appears or vanishes,
                      \* mailboxes other than source and destination are as before, and what
                      \* the destination gained are messages the command named
                      /\ Names(P) = Names(post)
                      /\ \A f \in Names(P) \ {C.src, C.dst} : Rows(P, f) = Rows(post, f)
                      /\ Cids(post, C.dst) \ Cids(P, C.dst) \subseteq ToSet(C.cids)
      tolerated == (IF halfApplied THEN {ONEBYONE} ELSE {})
                   \cup (IF changed /\ timeoutAfter THEN {TIMEOUTAFTER} ELSE {})
  IN IF limbo THEN Fail("C14_NeverInLimbo")
     ELSE IF notExactlyOne THEN Fail("C14_MoveExactlyOne")
     ELSE IF notAll THEN Fail("C14_AllOrNothing")
     ELSE IF halfApplied /\ ~(oneByOne /\ ONEBYONE \in Known) THEN Fail("C14_AllOrNothing")
     ELSE IF changed /\ ~(timeoutAfter /\ TIMEOUTAFTER \in Known) THEN Fail("C14_RefusedInert")
     ELSE /\ used' = used \cup tolerated
          /\ UNCHANGED <<pre, cmd, ack, kill, bad>>

Next == /\ l <= Len(Traces[tid]) /\ bad = ""
        /\ CASE Ev.e = "pre"  -> pre' = <<Ev>> /\ UNCHANGED <<cmd, ack, kill, used, bad>>
             [] Ev.e = "cmd"  -> cmd' = <<Ev>> /\ UNCHANGED <<pre, ack, kill, used, bad>>
             [] Ev.e = "ack"  -> ack' = <<Ev>> /\ UNCHANGED <<pre, cmd, kill, used, bad>>
             [] Ev.e = "kill" -> kill' = <<Ev>> /\ UNCHANGED <<pre, cmd, ack, used, bad>>
             [] Ev.e = "post" -> IF pre = <<>> \/ cmd = <<>> \/ ack = <<>> \/ kill = <<>>
                                 THEN Fail("MALFORMED-TRACE") ELSE Judge(Ev)
             [] OTHER         -> UNCHANGED <<pre, cmd, ack, kill, used, bad>>
        /\ l' = l + 1 /\ tid' = tid

Spec == Init /\ [][Next]_vars
Record == IF TLCGet(tid)[2] = "" /\ (bad # "" \/ used # TLCGet(tid)[3])
          THEN TLCSet(tid, <<IF bad # "" THEN l - 1 ELSE 0, bad, used>>) ELSE TRUE
Post == \A i \in 1..N : PrintT(<<"VERDICT", i, TLCGet(i)[1], TLCGet(i)[2], TLCGet(i)[3]>>)
=============================================================================
