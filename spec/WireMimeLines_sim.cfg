SPECIFICATION Spec
CONSTANTS
  MaxLines = 40
  Prefix <- PrefixNest
  Alphabet <- AlphaNest
  Fixed <- DevsNone
INVARIANT TypeOK
