SPECIFICATION Spec
CONSTANTS
  Names = {"INBOX", "Box"}
  MaxMsgs = 2
  MaxOps = 4
  MaxSel = 2
  MaxCrashes = 1
  FlagSet = {"S"}
  AppendFlags = {{}}
  Dev = {}
  Tol = {}
  OtherFs = FALSE
  Virgin = FALSE
  Existing = {"Box"}
INVARIANT TypeOK
INVARIANT MoveFileSomewhere
INVARIANT MoveNeverInLimbo
INVARIANT MoveExactlyOne
CHECK_DEADLOCK FALSE
