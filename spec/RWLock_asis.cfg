SPECIFICATION Spec
CONSTANTS
  Task = {t1, t2, t3}
  MaxOps = 2
  MaxCancel = 1
  Variant = "asis"
INVARIANT Excl
INVARIANT CleanAtEnd
