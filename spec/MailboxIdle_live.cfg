SPECIFICATION ISpec
CONSTANTS
  Sess = {a, b}
  MaxUid = 2
  InitMsgs = 1
  Flags = {"D"}
  MaxCmds = 3
  Menu = {"select", "store", "append"}
  Devs = {}
PROPERTY EventuallyTold
CHECK_DEADLOCK FALSE
