SPECIFICATION Spec
CONSTANTS
  MaxLen = 3
  Fixed <- DevsNone
INVARIANT TypeOK
INVARIANT OnlyKnown
INVARIANT KnownDeviates
