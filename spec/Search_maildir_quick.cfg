\* seeded sample for the maildir backend (quick tier): as Search_maildir.cfg with 4 mailboxes
SPECIFICATION Spec
CONSTANTS
  Exhaustive = FALSE
  Rewrites = TRUE
  MaxMsgs = 3
  Uids = {1, 2, 3, 4, 5}
  SysFlags = {"Seen", "Deleted", "Flagged", "Answered", "Draft"}
  Kws = {}
  Sizes = {1, 2, 3}
  Days = {0, 1, 2}
  Shifts <- StdShifts
  WithNoSent = TRUE
  WithRecent = FALSE
  Fields = {"From", "To", "Cc", "Bcc", "Subject", "XV"}
  Tokens = {"t1", "t2"}
  LeafOps = {"ALL", "NEW", "ANSWERED", "DELETED", "DRAFT", "FLAGGED", "RECENT", "SEEN",
             "UNANSWERED", "UNDELETED", "UNDRAFT", "UNFLAGGED", "OLD", "UNSEEN",
             "KEYWORD", "UNKEYWORD", "LARGER", "SMALLER",
             "BEFORE", "ON", "SINCE", "SENTBEFORE", "SENTON", "SENTSINCE",
             "FROM", "TO", "CC", "BCC", "SUBJECT", "HEADER", "BODY", "TEXT", "SEQ", "UID"}
  KwKeys = {"nokw"}
  SizeKeys = {0, 1, 2, 3}
  DayKeys = {0, 1, 2, 3}
  HdrKeys = {"From", "To", "Cc", "Bcc", "Subject", "XV", "XN"}
  SeqSets <- StdSeqSets
  UidSets <- LowUidSets
  DateModes = {"ww", "wu", "uw", "uu"}
  Devs = {"BodyKeyMatchesHeaders", "UidSearchSeqSetAsUid", "DoubleNotRejected"}
  NumMb = 4
  NumLeaf = 40
  NumLeafSets = 6
  LeafSetSize = 4
  NumD1 = 12
  NumD2 = 24
INVARIANT MailboxOK
INVARIANT InvNot
INVARIANT InvOr
INVARIANT InvAnd
INVARIANT InvUidSeq
INVARIANT InvEquiv
INVARIANT InvRewrite
INVARIANT InvDev
