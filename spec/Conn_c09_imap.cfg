\* C09, IMAP: three users (two ordinary, one admin), every authentication
\* form x credential class, server without TLS / TLS required with a remote
\* or a local peer.  Reauth = TRUE: a second successful exchange may switch
\* the identity (refusing it is C05's clause) - but only with credentials
\* that verify.
CONSTANTS
  Service = "imap"
  Users = {"u1", "u2", "adm"}
  Admins = {"adm"}
  Envs = {"plain", "tlsremote", "tlslocal"}
  Cmds = {"CAPABILITY", "NOOP", "LOGOUT", "STARTTLS", "LIST_ALL", "LOGIN_BAD", "AUTH_BADMECH", "AUTH_BAD", "UNKNOWN", "BADLINE"}
  Forms = {"LOGIN", "PLAIN", "LOGINMECH"}
  Kinds = {"right", "wrongpw", "emptypw", "unknown", "emptyuser", "malformed", "cancel", "cancel2", "empty", "oversized", "cmdline"}
  Reauth = TRUE
  BadLimit = 0
INIT Init
NEXT Next
INVARIANT TypeOK
INVARIANT AuthSound
INVARIANT NoProofNoAuth
INVARIANT SelSound
INVARIANT ByeCloses
