SPECIFICATION Spec
CONSTANTS
  MaxLen = 4
  Devs = {}
INVARIANT WellFormed
INVARIANT RoundTrip
CHECK_DEADLOCK FALSE
