SPECIFICATION Spec
CONSTANTS
  MaxLen = 4
  Fixed <- AllDevs
INVARIANT TypeOK
INVARIANT SpellingLaw
INVARIANT ReserialiseLaw
INVARIANT FramingLaw
