SPECIFICATION Spec
CONSTANTS
  Kind = "sieve"
  MaxArgs = 2
INVARIANT TypeOK
CHECK_DEADLOCK FALSE
