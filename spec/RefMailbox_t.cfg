\* thorough exhaustive part: all programs of <= 3 commands over menu "t"
SPECIFICATION Spec
CONSTANTS
  KwPermitted = FALSE
  OorLenient = {"copy", "fetch", "move", "store"}
  OorStrict = {"copy", "fetch", "move", "store"}
  RecLenient = {"append", "store"}
  RecStrict = {"append", "store"}
  AppendKw = {"drop", "keep"}
  Inits = {"std"}
  MaxCmds = 3
  MaxUid = 9
  Profile = "t"
  TwoLevel = FALSE
INVARIANT TypeOK
INVARIANT UidsBelowNext
INVARIANT NoRecentStored
INVARIANT KwOnlyIfAllowed
INVARIANT ContentHasOneDate
PROPERTY UidsAscend
PROPERTY RefusedInert
PROPERTY MoveIsCopyStoreExpunge
PROPERTY ExpungeExact
PROPERTY FetchSeenExact
PROPERTY StoreExact
PROPERTY OtherLeavesSession
CHECK_DEADLOCK FALSE
