----------------------------- MODULE WireUtf7Dec -----------------------------
(***************************************************************************)
(* C18 / C06: modutf7_decode (pymap/parsing/modutf7.py) step by step, on    *)
(* EVERY token string (not only encoder output), to decide termination.     *)
(* One step = one iteration of `while buf:`.                                *)
(*   tokens: CH (any byte other than & and -), AMP, DASH                    *)
(*   us-ascii mode: "&-" -> two tokens consumed; "&" -> shift; else one     *)
(*   shift mode: the for loop looks for "-"; found: consume through it;     *)
(*               NOT found: before the fix a67d1aa ("modified UTF-7 decoder *)
(*               looped for ever on an unterminated shift") the for loop    *)
(*               ended without break and `buf` was unchanged - the while    *)
(*               loop span.  Since the fix (for ... else: break) the rest   *)
(*               is decoded as the final shift and the function returns.    *)
(*               Fixed = {} is the tree BEFORE that fix (kept so that TLC's *)
(*               lasso can be shown), Fixed = AllDevs the tree as it is.    *)
(* `spin` flips on an iteration that makes no progress so that the          *)
(* non-termination is a lasso TLC reports for  Terminates == <>done.        *)
(***************************************************************************)
EXTENDS Integers, Sequences, FiniteSets, TLC

CONSTANTS MaxLen, Fixed

VARIABLES inp, pos, shift, spin, done

vars == <<inp, pos, shift, spin, done>>

TC == {"CH", "AMP", "DASH"}
AllDevs == {"Utf7UnterminatedShiftHangs"}
DevsNone == {}

Inputs == UNION {[1..n -> TC] : n \in 0..MaxLen}

Init == /\ inp \in Inputs
        /\ pos = 1 /\ shift = FALSE /\ spin = FALSE /\ done = FALSE

DashAhead == \E j \in pos..Len(inp) : inp[j] = "DASH"
NextDash == CHOOSE j \in pos..Len(inp) : inp[j] = "DASH" /\ \A x \in pos..(j - 1) : inp[x] # "DASH"

Finish == /\ ~done /\ pos > Len(inp)
          /\ done' = TRUE
          /\ UNCHANGED <<inp, pos, shift, spin>>

Ascii == /\ ~done /\ pos <= Len(inp) /\ ~shift
         /\ IF inp[pos] = "AMP" /\ pos + 1 <= Len(inp) /\ inp[pos + 1] = "DASH"
            THEN pos' = pos + 2 /\ shift' = FALSE
            ELSE IF inp[pos] = "AMP" THEN pos' = pos + 1 /\ shift' = TRUE
            ELSE pos' = pos + 1 /\ shift' = FALSE
         /\ UNCHANGED <<inp, spin, done>>

Shifted == /\ ~done /\ pos <= Len(inp) /\ shift
           /\ IF DashAhead
              THEN pos' = NextDash + 1 /\ shift' = FALSE /\ spin' = spin
              ELSE IF "Utf7UnterminatedShiftHangs" \in Fixed
                   THEN pos' = Len(inp) + 1 /\ shift' = shift /\ spin' = spin
                   ELSE pos' = pos /\ shift' = shift /\ spin' = ~spin
           /\ UNCHANGED <<inp, done>>

Next == Finish \/ Ascii \/ Shifted

Spec == Init /\ [][Next]_vars /\ WF_vars(Next)

TypeOK == inp \in Inputs /\ pos \in 1..(MaxLen + 1)

Terminates == <>done

\* the inputs on which the as-is loop spins: a shift opened with no DASH after it
Stuck == ~done /\ shift /\ pos <= Len(inp) /\ ~DashAhead
=============================================================================
