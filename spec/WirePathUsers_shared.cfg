SPECIFICATION Spec
CONSTANTS
  Users = {u1, u2}
  BoxNames = {"a", "b"}
  MaxMsgs = 1
  Shared = TRUE
INVARIANT TypeOK
PROPERTY Isolation
CHECK_DEADLOCK FALSE
