SPECIFICATION Spec
CONSTANTS
  MaxLen = 5
  Fixed <- AllDevs
INVARIANT TypeOK
INVARIANT RoundTrip
INVARIANT WellFormedOut
