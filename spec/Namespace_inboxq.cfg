\* quick tier: INBOX: case variants, INBOX as hierarchy parent, renaming INBOX
SPECIFICATION SpecAsIs
CONSTANTS
  CreateArgs <- InbQCreate
  NameArgs <- InbQName
  AppendArgs <- InbQAppend
  SubArgs <- InbQSub
  RenameArgs <- InbQRename
  ListQ <- InbListQ
  LsubQ <- InbLsubQ
  InitSets <- None
  MaxMsgs = 1
  MaxLen = 3
  Dev <- AllDev
  Store = "dict"
INVARIANT TypeOK
CHECK_DEADLOCK FALSE
