\* quick tier: INBOX: case variants, INBOX as hierarchy parent, renaming INBOX
SPECIFICATION SpecAsIs
CONSTANTS
  CreateArgs <- InbQCreate
  NameArgs <- InbQName
  AppendArgs <- InbQAppend
  SubArgs <- InbQSub
  RenameArgs <- InbQRename
  ListQ <- InbListQ
  LsubQ <- InbLsubQ
  InitSets <- None
  MaxMsgs = 1
  MaxLen = 3
  AllOpen <- AllKnown
  Stores = {"dict", "pp", "fs"}
INVARIANT TypeOK
CHECK_DEADLOCK FALSE
