SPECIFICATION ISpec
CONSTANTS
  Sess = {a, b}
  MaxUid = 3
  InitMsgs = 1
  Flags = {"D"}
  MaxCmds = 4
  Menu = {"select", "store", "expunge", "append"}
  Devs = {"IdleArmAfterDiff"}
CONSTRAINT IConstr
INVARIANT WaitingMeansCurrent
INVARIANT ConvergedUids
CHECK_DEADLOCK FALSE
