\* random programs of <= 12 commands over the full menu (tlc -simulate -depth 25); the check
\* sets the latitude constants and KwPermitted to what the backend under test exhibits
\* (here: what pymap's dict backend does)
SPECIFICATION Spec
CONSTANTS
  KwPermitted = FALSE
  OorLenient = {"copy", "fetch", "move", "store"}
  OorStrict = {}
  RecLenient = {"append", "store"}
  RecStrict = {}
  AppendKw = {"keep"}
  Inits = {"empty", "std"}
  MaxCmds = 12
  MaxUid = 12
  Profile = "full"
  TwoLevel = TRUE
INVARIANT TypeOK
INVARIANT UidsBelowNext
INVARIANT NoRecentStored
INVARIANT KwOnlyIfAllowed
INVARIANT ContentHasOneDate
PROPERTY UidsAscend
PROPERTY RefusedInert
PROPERTY MoveIsCopyStoreExpunge
PROPERTY ExpungeExact
PROPERTY FetchSeenExact
PROPERTY StoreExact
PROPERTY OtherLeavesSession
CHECK_DEADLOCK FALSE
