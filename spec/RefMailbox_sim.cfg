\* random programs of <= 12 commands over the full menu (tlc -simulate -depth 25); the check
\* sets Lat / AppendKw / KwPermitted to what the backend under test exhibits
SPECIFICATION Spec
CONSTANTS
  KwPermitted = FALSE
  Lat = {"lenient"}
  AppendKw = {"keep"}
  Inits = {"empty", "std"}
  MaxCmds = 12
  MaxUid = 12
  Profile = "full"
  TwoLevel = TRUE
INVARIANT TypeOK
INVARIANT UidsBelowNext
INVARIANT NoRecentStored
INVARIANT KwOnlyIfAllowed
INVARIANT ContentHasOneDate
CHECK_DEADLOCK FALSE
