\* random programs of up to 12 commands over the full menu (tlc -simulate);
\* the check generates this file's twin at run time with Lat / AppendKw /
\* KwPermitted set to what the backend under test exhibits
SPECIFICATION Spec
CONSTANTS
  KwPermitted = FALSE
  Lat = {"lenient"}
  AppendKw = {"keep"}
  Inits = {"std", "empty"}
  MaxCmds = 12
  MaxUid = 12
  Profile = "full"
  TwoLevel = TRUE
INVARIANT TypeOK
INVARIANT UidsBelowNext
INVARIANT NoRecentStored
INVARIANT ContentHasOneDate
CHECK_DEADLOCK FALSE
