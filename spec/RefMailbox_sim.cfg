\* random programs of <= 12 commands over the full menu (tlc -simulate -depth 25); the check
\* sets LatOor / LatRec / AppendKw / KwPermitted to what the backend under test exhibits
SPECIFICATION Spec
CONSTANTS
  KwPermitted = FALSE
  LatOor = {"lenient"}
  LatRec = {"lenient"}
  AppendKw = {"keep"}
  Inits = {"empty", "std"}
  MaxCmds = 12
  MaxUid = 12
  Profile = "full"
  TwoLevel = TRUE
INVARIANT TypeOK
INVARIANT UidsBelowNext
INVARIANT NoRecentStored
INVARIANT KwOnlyIfAllowed
INVARIANT ContentHasOneDate
PROPERTY UidsAscend
PROPERTY RefusedInert
PROPERTY MoveIsCopyStoreExpunge
PROPERTY ExpungeExact
PROPERTY FetchSeenExact
PROPERTY StoreExact
CHECK_DEADLOCK FALSE
