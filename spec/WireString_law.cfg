SPECIFICATION Spec
CONSTANTS
  MaxLen = 3
  Fixed <- DevsNone
INVARIANT SpellingLaw
INVARIANT ReserialiseLaw
INVARIANT FramingLaw
