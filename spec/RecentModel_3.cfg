SPECIFICATION Spec
CONSTANTS
  Sess = {a, b, c}
  MaxLen = 5
INVARIANT ReadOnlyNeverHolds
INVARIANT ClaimedBySelect
CHECK_DEADLOCK FALSE
