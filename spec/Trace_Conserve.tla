--------------------------- MODULE Trace_Conserve ---------------------------
(***************************************************************************)
(* Observer for C14.  After EVERY driver step (one session advanced from   *)
(* one parking point of the real code to the next, or a fault injected)    *)
(* the harness logs the content of all mailboxes (glass box): rows         *)
(* <<mailbox object, uid, content id, \Deleted?>>.                         *)
(*                                                                         *)
(*  C14_NeverVanish       at every instant a message exists somewhere: a   *)
(*                        content id present in one state is present in    *)
(*                        the next unless it was flagged \Deleted and an   *)
(*                        EXPUNGE / UID EXPUNGE / CLOSE is in flight       *)
(*  C14_MoveExactlyOne    when MOVE is answered OK every moved message is  *)
(*                        gone from the source and present in the          *)
(*                        destination under the UID COPYUID names (checked *)
(*                        when no other command overlapped); and when only *)
(*                        MOVEs and EXPUNGEs ran, no message exists twice  *)
(*                        at the end (two sessions moving the same message)*)
(*  C14_AppendAllOrNothing  a multi-message APPEND that did not complete   *)
(*                        with OK left none of its messages                *)
(*  C14_FailedUnchanged   a command answered NO or BAD left the mailboxes  *)
(*                        as they were when it started (checked when no    *)
(*                        other session had a command in flight meanwhile) *)
(***************************************************************************)
EXTENDS Naturals, Sequences, FiniteSets, TLC, Json, IOUtils

Data == JsonDeserialize(IOEnv.TRACE_FILE)
Traces == Data.traces
Known == {Data.known[i] : i \in DOMAIN Data.known}    \* ids of the OPEN known findings
N == Len(Traces)
ASSUME \A i \in 1..N : TLCSet(i, <<0, "", {}>>)
Sess == {"a", "b", "c", "d"}

VARIABLES tid, l,
          rows,      \* the last logged state: set of <<obj, uid, cid, deleted>>
          hasrows,
          cmd,       \* cmd[s]: command in flight or <<>>
          atstart,   \* atstart[s]: rows when the command of s started
          clean,     \* clean[s]: no other session had a command in flight since s started
          moved,     \* moved[s]: set of <<srcobj, su, dstobj, du>> from COPYUID of a MOVE in flight
          limbo,     \* content ids that are in NO mailbox right now, inside a MOVE's window
                     \* (named deviation DictMoveWindow; tolerated only when it is an open
                     \* known finding, and then everything else is still checked)
          used,      \* known-finding ids this trace needed
          bad
vars == <<tid, l, rows, hasrows, cmd, atstart, clean, moved, limbo, used, bad>>

ToSet(q) == {q[i] : i \in DOMAIN q}
RowSet(r) == {<<r[i][1], r[i][2], r[i][3], r[i][4]>> : i \in DOMAIN r}
Cids(R) == {x[3] : x \in R}

Init == /\ tid \in 1..N /\ l = 1 /\ rows = {} /\ hasrows = FALSE
        /\ cmd = [s \in Sess |-> <<>>] /\ atstart = [s \in Sess |-> {}]
        /\ clean = [s \in Sess |-> TRUE] /\ moved = [s \in Sess |-> {}]
        /\ limbo = {} /\ used = {}
        /\ bad = ""

Ev == Traces[tid][l]
Fail(c) == bad' = c /\ UNCHANGED <<rows, hasrows, cmd, atstart, clean, moved, limbo, used>>

Expunging == \E s \in Sess : cmd[s] # <<>> /\ cmd[s][1] \in {"expunge", "uidexpunge", "close"}

Moving == \E s \in Sess : cmd[s] # <<>> /\ cmd[s][1] = "move"

State(ev) ==
  LET now == RowSet(ev.rows)
      lost == Cids(rows) \ Cids(now)
      excused == {c \in lost : Expunging /\ \A x \in rows : x[3] = c => x[4]}
      rest == lost \ excused
      window == rest # {} /\ Moving /\ "DictMoveWindow" \in Known
  IN IF hasrows /\ rest # {} /\ ~window THEN Fail("C14_NeverVanish")
     ELSE /\ rows' = now /\ hasrows' = TRUE
          /\ limbo' = (limbo \cup (IF hasrows THEN rest ELSE {})) \ Cids(now)
          /\ used' = IF hasrows /\ window THEN used \cup {"DictMoveWindow"} ELSE used
          /\ UNCHANGED <<cmd, atstart, clean, moved, bad>>

Start(ev) ==
  /\ cmd' = [cmd EXCEPT ![ev.s] = ev.cmd]
  /\ atstart' = [atstart EXCEPT ![ev.s] = rows]
  /\ clean' = [t \in Sess |-> IF t = ev.s THEN \A u \in Sess \ {t} : cmd[u] = <<>>
                              ELSE IF cmd[t] # <<>> THEN FALSE ELSE clean[t]]
  /\ moved' = [moved EXCEPT ![ev.s] = {}]
  /\ UNCHANGED <<rows, hasrows, limbo, used, bad>>

CopyUid(ev) ==
  /\ moved' = IF ev.move
              THEN [moved EXCEPT ![ev.s] = @ \cup {<<ev.srcobj, ev.src[i], ev.dstobj, ev.dst[i]>> :
                                                    i \in DOMAIN ev.src \cap DOMAIN ev.dst}]
              ELSE moved
  /\ UNCHANGED <<rows, hasrows, cmd, atstart, clean, limbo, used, bad>>

Has(o, u) == \E x \in rows : x[1] = o /\ x[2] = u

Tagged(ev) ==
  LET s == ev.s
      c == cmd[s]
      lastMove == c # <<>> /\ c[1] = "move" /\ \A t \in Sess \ {s} : cmd[t] = <<>> \/ cmd[t][1] # "move"
  IN IF c # <<>> /\ c[1] = "move" /\ ev.cond = "OK" /\ clean[s]
        /\ \E m \in moved[s] : (m[1] # "" /\ Has(m[1], m[2])) \/ (m[3] # "" /\ ~Has(m[3], m[4]))
     THEN Fail("C14_MoveExactlyOne")
     ELSE IF lastMove /\ limbo # {} THEN Fail("C14_MoveExactlyOne")   \* finished, message still nowhere
     ELSE IF c # <<>> /\ ev.cond \in {"NO", "BAD"} /\ clean[s] /\ rows # atstart[s]
     THEN Fail("C14_FailedUnchanged")
     ELSE /\ cmd' = [cmd EXCEPT ![s] = <<>>]
          /\ UNCHANGED <<rows, hasrows, atstart, clean, moved, limbo, used, bad>>

\* the connection ended (fault): its command is no longer in flight
\* (a MOVE killed inside its window has lost the message: that IS the known finding)
Gone(ev) == /\ cmd' = [cmd EXCEPT ![ev.s] = <<>>]
            /\ limbo' = IF cmd[ev.s] # <<>> /\ cmd[ev.s][1] = "move" THEN {} ELSE limbo
            /\ UNCHANGED <<rows, hasrows, atstart, clean, moved, used, bad>>

\* end of the run, after everything settled: multi-APPENDs and how they ended
End(ev) ==
  IF \E i \in DOMAIN ev.appends : ~ev.appends[i].ok /\ ToSet(ev.appends[i].cids) \cap Cids(rows) # {}
  THEN Fail("C14_AppendAllOrNothing")
  \* nothing but MOVEs (and EXPUNGEs) ran: no message may exist twice afterwards
  ELSE IF ev.nocopy /\ \E x, y \in rows : x[3] = y[3] /\ x # y
  THEN Fail("C14_MoveExactlyOne")
  ELSE UNCHANGED <<rows, hasrows, cmd, atstart, clean, moved, limbo, used, bad>>

Next == /\ l <= Len(Traces[tid]) /\ bad = ""
        /\ CASE Ev.e = "state"   -> State(Ev)
             [] Ev.e = "start"   -> Start(Ev)
             [] Ev.e = "copyuid" -> CopyUid(Ev)
             [] Ev.e = "tagged"  -> Tagged(Ev)
             [] Ev.e = "gone"    -> Gone(Ev)
             [] Ev.e = "end"     -> End(Ev)
             [] OTHER            -> UNCHANGED <<rows, hasrows, cmd, atstart, clean, moved, limbo, used, bad>>
        /\ l' = l + 1 /\ tid' = tid

Spec == Init /\ [][Next]_vars
Record == IF TLCGet(tid)[2] = "" /\ (bad # "" \/ used # TLCGet(tid)[3])
          THEN TLCSet(tid, <<IF bad # "" THEN l - 1 ELSE 0, bad, used>>) ELSE TRUE
Post == \A i \in 1..N : PrintT(<<"VERDICT", i, TLCGet(i)[1], TLCGet(i)[2], TLCGet(i)[3]>>)
=============================================================================
