\* C09, ManageSieve listener: AUTHENTICATE with the initial response in the
\* command ("PLAINIR"), with a continuation, and the LOGIN mechanism.
CONSTANTS
  Service = "sieve"
  Users = {"u1", "u2", "adm"}
  Admins = {"adm"}
  Envs = {"plain", "tlsremote", "tlslocal"}
  Cmds = {"CAPABILITY", "NOOP", "LOGOUT", "STARTTLS", "UNAUTHENTICATE", "LISTSCRIPTS", "UNKNOWN"}
  Forms = {"PLAINIR", "PLAIN", "LOGINMECH"}
  Kinds = {"right", "wrongpw", "emptypw", "unknown", "emptyuser", "malformed", "cancel", "cancel2", "empty", "oversized", "cmdline"}
  Reauth = TRUE
  BadLimit = 0
INIT Init
NEXT Next
INVARIANT TypeOK
INVARIANT AuthSound
INVARIANT NoProofNoAuth
INVARIANT SelSound
INVARIANT ByeCloses
