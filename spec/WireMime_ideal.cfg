SPECIFICATION Spec
CONSTANTS
  MaxLen = 6
  Fixed = {"WhitespaceOnlyTail", "NoSeparatorHeader", "BodystructureSizeIncludesHeader"}
INVARIANT TypeOK
INVARIANT Fidelity
INVARIANT PartSize
INVARIANT Slices
