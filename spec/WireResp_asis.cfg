SPECIFICATION Spec
CONSTANTS
  MaxLen = 4
  Devs = {"CRQuoted", "HiQuoted"}
INVARIANT WellFormed
INVARIANT RoundTrip
CHECK_DEADLOCK FALSE
