\* the tree under test: the escaping name classes are named deviations
\* (= the open entries of known/C08.json); TLC must pass
SPECIFICATION Spec
CONSTANTS
  MaxLen = 4
  ExtraNames <- DeepNames
  RejectSpecialParts = FALSE
  Deviations <- AllClasses
INVARIANT TypeOK
INVARIANT Confined
INVARIANT AllowedAreZones
INVARIANT PPOneComponent
CHECK_DEADLOCK FALSE
