\* C09 observer over recorded executions.  Users: every user that EXISTS in one of the stores
\* the driver provisions (u1 u2 adm: the table shared with the dict part; the others: the
\* maildir-specific accounts of c09.py - an account without a password entry, a disabled one,
\* a locked one, accounts whose mailbox path lies elsewhere, a name with the file format's
\* separator, the empty name of a blank line, admins by the roles file and by uid 0).
\* Admins: the ones the store gives the admin role.  The remaining constants of
\* Conn are not read by the clauses evaluated here (Reauth = TRUE: C09 reading).
CONSTANTS
  Service = "imap"
  Users = {"u1", "u2", "adm", "nopw", "off", "locked", "far", "out", "colon", "blank", "gadm", "root0"}
  Admins = {"adm", "gadm", "root0"}
  Envs = {"plain", "tlsremote", "tlslocal"}
  Cmds = {}
  Forms = {}
  Kinds = {}
  Reauth = TRUE
  BadLimit = 0
SPECIFICATION TSpec
CONSTRAINT Record
POSTCONDITION Post
CHECK_DEADLOCK FALSE
