SPECIFICATION Spec
CONSTANTS
  MaxLen = 4
  Fixed <- AllDevs
INVARIANT TypeOK
