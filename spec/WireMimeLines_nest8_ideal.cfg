SPECIFICATION Spec
CONSTANTS
  MaxLines = 8
  Prefix <- PrefixNest
  Alphabet <- AlphaNest
  Fixed <- AllDevs
INVARIANT TypeOK
INVARIANT Fidelity
INVARIANT PartSize
