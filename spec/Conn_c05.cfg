\* C05: the complete IMAP command alphabet, one user, server without TLS and
\* server requiring TLS with a remote / a local peer.  The step clauses are asserted
\* inside Next (see Do / Auth in Conn.tla).
CONSTANTS
  Service = "imap"
  Users = {"u1"}
  Admins = {}
  Envs = {"plain", "tlsremote", "tlslocal"}
  Cmds <- ImapCmds
  Forms = {"LOGIN", "PLAIN", "LOGINMECH"}
  Kinds = {"right", "wrongpw"}
  Reauth = FALSE
  BadLimit = 0
INIT Init
NEXT Next
INVARIANT TypeOK
INVARIANT AuthSound
INVARIANT NoProofNoAuth
INVARIANT SelSound
INVARIANT ByeCloses
CONSTRAINT DataOnlyWithoutTls
