\* sanity of the reference model itself: no deviations, every allowed outcome
SPECIFICATION SpecRFC
CONSTANTS
  CreateArgs <- HierCreate
  NameArgs <- HierName
  AppendArgs <- HierAppend
  SubArgs <- HierSub
  RenameArgs <- HierRename
  ListQ <- HierListQ
  LsubQ <- HierLsubQ
  InitSets <- None
  MaxMsgs = 1
  MaxLen = 3
  AllOpen = {}
  Stores = {"dict"}
INVARIANT TypeOK
INVARIANT MatcherSane
PROPERTY FailChangesNothing
PROPERTY InboxProtected
PROPERTY RenamePreserves
PROPERTY EffectsExact
PROPERTY Conservation
CHECK_DEADLOCK FALSE
