SPECIFICATION Spec
CONSTANTS
  Kind = "hdr"
  MaxArgs = 3
INVARIANT TypeOK
CHECK_DEADLOCK FALSE
