\* names a store may be unable to hold: a part with the token "u" (concretised
\* per store), a leading hierarchy delimiter (an empty first part)
SPECIFICATION SpecAsIs
CONSTANTS
  CreateArgs <- OddCreate
  NameArgs <- OddName
  AppendArgs <- OddAppend
  SubArgs <- OddSub
  RenameArgs <- OddRename
  ListQ <- OddListQ
  LsubQ <- OddLsubQ
  InitSets <- None
  MaxMsgs = 1
  MaxLen = 3
  AllOpen <- AllKnown
  Stores = {"pp", "fs"}
INVARIANT TypeOK
CHECK_DEADLOCK FALSE
