\* the layouts WITHOUT the refusal of unsafe names, escaping classes listed so
\* that TLC passes: dumped to obtain the regression corpus (the names that
\* would escape), not a statement about the tree under test
SPECIFICATION Spec
CONSTANTS
  MaxLen = 4
  ExtraNames <- DeepNames
  RejectSpecialParts = FALSE
  Deviations <- AllClasses
INVARIANT TypeOK
INVARIANT Confined
INVARIANT AllowedAreZones
INVARIANT PPOneComponent
CHECK_DEADLOCK FALSE
