\* the behaviour pymap is believed to have (deterministic selection from the
\* allowed outcomes + the open deviations): the graph replayed on the server
SPECIFICATION SpecAsIs
CONSTANTS
  CreateArgs <- HierCreate
  NameArgs <- HierName
  AppendArgs <- HierAppend
  SubArgs <- HierSub
  RenameArgs <- HierRename
  ListQ <- HierListQ
  LsubQ <- HierLsubQ
  InitSets <- None
  MaxMsgs = 1
  MaxLen = 3
  AllOpen <- AllKnown
  Stores = {"dict", "pp", "fs"}
INVARIANT TypeOK
CHECK_DEADLOCK FALSE
