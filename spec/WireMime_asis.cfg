SPECIFICATION Spec
CONSTANTS
  MaxLen = 5
  Fixed = {}
INVARIANT TypeOK
INVARIANT OnlyKnown
INVARIANT KnownDeviates
INVARIANT Slices
