---------------------------- MODULE Trace_RWLock ----------------------------
(***************************************************************************)
(* Implementation-shaped trace spec: every recorded step of the real lock  *)
(* must be the RWLock action of that name on that task AND leave the real  *)
(* object in the state the action computes (projection logged after every  *)
(* step: pc, counter, both mutexes' locked bit and waiter queue).          *)
(* A rejection here is DRIFT (the code no longer follows the model), not a *)
(* violation: violations are decided by Trace_LockObs.                     *)
(***************************************************************************)
EXTENDS RWLock, Json, IOUtils

Traces == JsonDeserialize(IOEnv.TRACE_FILE).traces
N == Len(Traces)

ASSUME \A i \in 1..N : TLCSet(i, 0)

VARIABLES tid, l
tvars == <<vars, tid, l>>

ToQ(q) == [i \in 1..Len(q) |-> [t |-> q[i].t, st |-> q[i].st]]

TInit == /\ tid \in 1..N /\ l = 2
         /\ left = Traces[tid][1].left
         /\ pc = [t \in Task |-> IF left[t] = <<>> THEN "done" ELSE "idle"]
         /\ rm = [locked |-> FALSE, q |-> <<>>]
         /\ wl = [locked |-> FALSE, q |-> <<>>]
         /\ counter = 0
         /\ must = [t \in Task |-> FALSE]
         /\ ncancel = 0

Ev == Traces[tid][l]

Matches(ev) == /\ pc' = ev.pc
               /\ counter' = ev.counter
               /\ rm'.locked = ev.rml /\ wl'.locked = ev.wll
               /\ rm'.q = ToQ(ev.rmq) /\ wl'.q = ToQ(ev.wlq)

TNext == /\ l <= Len(Traces[tid])
         /\ \/ Ev.e = "begin" /\ Begin(Ev.t)
            \/ Ev.e = "resume" /\ Resume(Ev.t)
            \/ Ev.e = "leave" /\ Exit(Ev.t)
            \/ Ev.e = "cancel" /\ Cancel(Ev.t)
         /\ Matches(Ev)
         /\ l' = l + 1 /\ tid' = tid

TSpec == TInit /\ [][TNext]_tvars

Record == TLCSet(tid, IF TLCGet(tid) > l - 1 THEN TLCGet(tid) ELSE l - 1)
Post == \A i \in 1..N : PrintT(<<"VERDICT", i, TLCGet(i), Len(Traces[i])>>)
=============================================================================
