SPECIFICATION Spec
CONSTANTS
  Kind = "msg"
  MaxArgs = 2
INVARIANT TypeOK
CHECK_DEADLOCK FALSE
