------------------------------ MODULE WirePath ------------------------------
(***************************************************************************)
(* C08: mailbox name -> parts -> filesystem path, for both maildir layouts *)
(* of pymap (pymap/backend/maildir/layout.py), followed by the kernel's    *)
(* resolution of the path.  Transcribed, not re-designed:                  *)
(*                                                                         *)
(*   _BaseLayout._split       name.split(delimiter)         -> Split       *)
(*   DefaultLayout._get_subdir   '.' + '.'.join(parts)      -> SubdirPP    *)
(*   DefaultLayout._get_path  os.path.join(root, subdir)    -> Comps("pp") *)
(*   FilesystemLayout._get_path  os.path.join(root, *parts) -> Comps("fs") *)
(*   add_folder / rename_folder: _get_path(parts[0:i]) for                 *)
(*       i in range(1, len(parts) - 1)                      -> Prefixes    *)
(*   BaseSession.create_mailbox (backend/session.py): CREATE strips one    *)
(*       trailing delimiter before the layout is consulted  -> Eff         *)
(*                                                                         *)
(* A name is a sequence over the abstract alphabet                         *)
(*   "a"   an ordinary letter          "DOT"  '.'                          *)
(*   "SEP" '/', which is both the IMAP hierarchy delimiter of the maildir  *)
(*         backend (MailboxSet.delimiter) and the os path separator        *)
(*   "U"   a non-ASCII character       "NUL"  '\0'                         *)
(*   "I"   the five letters INBOX (only in ExtraNames).  The name that is   *)
(*         exactly INBOX (any case: parsing/specials/mailbox.py normalises *)
(*         it) splits to no parts and names the root legitimately;         *)
(*         imap/state.py refuses it in CREATE, DELETE and as the target of *)
(*         RENAME, the maildir MailboxSet refuses it as the source of      *)
(*         RENAME.  Inside a longer name "I" is an ordinary component.     *)
(*                                                                         *)
(* The kernel walks the components of the joined path from the user's root *)
(* directory: an empty component and '.' stay, '..' goes to the parent,    *)
(* anything else goes down (worst case: every directory named exists and   *)
(* there are no symbolic links).  A position is [u, d]: u levels above the *)
(* user's root, then d levels down again.  Zones, in the tree              *)
(*      <outside> / base / {user1 = root, user2, pymap-etc-*, ...}         *)
(*   "in"        strictly inside the user's root          (u = 0, d >= 1)  *)
(*   "root"      the user's root itself                   (u = 0, d = 0)   *)
(*   "base"      the base directory of all users          (u = 1, d = 0)   *)
(*   "sibling"   an entry of the base directory: another user's root, a    *)
(*               credential file, a new entry             (u = 1, d = 1)   *)
(*   "siblingIn" below such an entry                      (u = 1, d >= 2)  *)
(*   "outside"   the parent of the base directory or beyond   (u >= 2)     *)
(*   "rejected"  the path contains NUL: Python raises ValueError before    *)
(*               any system call is made                                   *)
(*                                                                         *)
(* TLC enumerates every name up to MaxLen and both layouts (one initial    *)
(* state each; there are no transitions).  The state carries everything    *)
(* the harness compares the real server with: `bad`, the set of command    *)
(* slots in which the name breaks confinement, and `view`, per slot group  *)
(* (CREATE sees the name without one trailing delimiter, all other slots   *)
(* see it as sent): the zone of the path, the zones of the parent-prefix   *)
(* probes, the zones `allowed` a command acting on that path may be seen   *)
(* touching, and the named deviation class `cls` of the name.              *)
(*                                                                         *)
(* Property (C08): Confined.  WirePath_asis.cfg is the tree under test:    *)
(* _split refuses unsafe names (RejectSpecialParts = TRUE) and no          *)
(* deviation is excused.  WirePath_asis_strict.cfg keeps the layouts as    *)
(* they were before the repair (names joined unchecked) and is EXPECTED to *)
(* fail: it documents what the refusal is needed for (the fixed entries of *)
(* known/C08.json) and shows that Confined can tell the difference.        *)
(***************************************************************************)
EXTENDS Naturals, Sequences, FiniteSets

CONSTANTS MaxLen,       \* names up to this length are enumerated
          ExtraNames,   \* further (longer) names to enumerate
          RejectSpecialParts, \* TRUE: _split refuses unsafe names (see Refused);
                        \* FALSE: the layouts as they were before that repair
          Deviations    \* named classes of names that are allowed to escape

Sym     == {"a", "DOT", "SEP", "U", "NUL"}
Names   == UNION {[1..n -> Sym] : n \in 0..MaxLen} \cup ExtraNames
Layouts == {"pp", "fs"}        \* "pp" = the default '++' layout

Slots == {"SELECT", "EXAMINE", "CREATE", "DELETE", "RENAMEfrom", "RENAMEto",
          "SUBSCRIBE", "UNSUBSCRIBE", "STATUS", "APPEND", "COPY", "MOVE",
          "LISTref", "LISTpat", "LSUBref", "LSUBpat"}

\* slots whose argument is turned into a path by the layout
PathSlots == {"SELECT", "EXAMINE", "CREATE", "DELETE", "RENAMEfrom",
              "RENAMEto", "STATUS", "APPEND", "COPY", "MOVE"}
\* add_folder / rename_folder probe the parents of the (destination) name
PrefixSlots == {"CREATE", "RENAMEto"}
\* "for DELETE/RENAME never is that directory itself"
RootForbidden == {"DELETE", "RENAMEfrom", "RENAMEto"}

-----------------------------------------------------------------------------
\* _BaseLayout._split: INBOX -> [], else str.split(delimiter): n delimiters
\* give n + 1 parts, '' gives ['']
Split(s) ==
  IF s = <<"I">> THEN <<>> ELSE
  LET F[i \in 0..Len(s)] ==
        IF i = 0 THEN << <<>> >>
        ELSE LET p == F[i - 1] IN
             IF s[i] = "SEP" THEN Append(p, <<>>)
             ELSE [p EXCEPT ![Len(p)] = Append(@, s[i])]
  IN F[Len(s)]

\* '.'.join(parts)
JoinDot(parts) ==
  LET F[i \in 0..Len(parts)] ==
        IF i = 0 THEN <<>>
        ELSE IF i = 1 THEN parts[1]
        ELSE F[i - 1] \o <<"DOT">> \o parts[i]
  IN F[Len(parts)]

\* DefaultLayout._get_subdir ('' for INBOX: os.path.join(root, '') is the root)
SubdirPP(parts) == IF parts = <<>> THEN <<>> ELSE <<"DOT">> \o JoinDot(parts)

\* the components os.path.join appends to the root.  No part contains the
\* separator (they come from a split on it), so no part is absolute and
\* os.path.join never discards the root.
Comps(layout, parts) ==
  IF layout = "pp" THEN << SubdirPP(parts) >> ELSE parts

Kind(c) ==
  IF \E i \in 1..Len(c) : c[i] = "NUL" THEN "nul"
  ELSE IF c = <<>> THEN "empty"
  ELSE IF c = <<"DOT">> THEN "dot"
  ELSE IF c = <<"DOT", "DOT">> THEN "dotdot"
  ELSE "ord"

\* path_resolution(7) over the components, from the user's root
Walk(comps) ==
  LET F[i \in 0..Len(comps)] ==
        IF i = 0 THEN [u |-> 0, d |-> 0]
        ELSE LET p == F[i - 1]
                 k == Kind(comps[i]) IN
             IF k \in {"empty", "dot"} THEN p
             ELSE IF k = "dotdot"
                  THEN IF p.d > 0 THEN [p EXCEPT !.d = @ - 1]
                                  ELSE [p EXCEPT !.u = @ + 1]
                  ELSE [p EXCEPT !.d = @ + 1]
  IN F[Len(comps)]

HasNul(comps) == \E i \in 1..Len(comps) : Kind(comps[i]) = "nul"
HasDotDot(comps) == \E i \in 1..Len(comps) : Kind(comps[i]) = "dotdot"

ZoneOf(comps) ==
  IF HasNul(comps) THEN "rejected"
  ELSE LET p == Walk(comps) IN
       IF p.u = 0 THEN (IF p.d = 0 THEN "root" ELSE "in")
       ELSE IF p.u = 1 THEN (IF p.d = 0 THEN "base"
                             ELSE IF p.d = 1 THEN "sibling" ELSE "siblingIn")
       ELSE "outside"

\* the name the layout is given in a slot: CREATE drops one trailing
\* delimiter (RFC 3501 6.3.3), except from the name that is just the delimiter
Eff(slot, nm) ==
  IF slot = "CREATE" /\ Len(nm) > 1 /\ nm[Len(nm)] = "SEP"
  THEN SubSeq(nm, 1, Len(nm) - 1) ELSE nm

\* the slots fall into two groups that see the same effective name
Groups == {"create", "plain"}
Group(slot) == IF slot = "CREATE" THEN "create" ELSE "plain"
EffG(g, nm) == Eff(IF g = "create" THEN "CREATE" ELSE "SELECT", nm)

\* the repair (_BaseLayout._split): the name is refused, before any path is
\* built, if a part is '.' or '..' or contains NUL (or the os separator, which
\* cannot occur here: the parts come from a split on it), or if the name is
\* empty or starts with two delimiters (first part empty and no non-empty
\* second part).  Other empty parts ('/a', 'a//b', 'a/') stay allowed: in the
\* '++' layout they only add dots inside one ordinary component, in the 'fs'
\* layout os.path.join ignores them.
Refused(nm) ==
  LET parts == Split(nm) IN
  /\ RejectSpecialParts
  /\ parts # <<>>
  /\ \/ \E i \in 1..Len(parts) : Kind(parts[i]) \in {"dot", "dotdot", "nul"}
     \/ parts[1] = <<>> /\ (Len(parts) = 1 \/ parts[2] = <<>>)

\* Resolve(layout, name): where the kernel ends up for get_path(name, '/')
Resolve(layout, nm) ==
  IF Refused(nm) THEN "rejected" ELSE ZoneOf(Comps(layout, Split(nm)))

\* the parent probes of add_folder / rename_folder:
\* _get_path(parts[0:i]) for i in range(1, len(parts) - 1)
Prefixes(layout, nm) ==
  LET parts == Split(nm) IN
  IF Refused(nm) THEN {}
  ELSE {ZoneOf(Comps(layout, SubSeq(parts, 1, i))) : i \in 1..(Len(parts) - 2)}

\* what a command that acts on a path in zone z may be seen touching: the
\* path and everything below it
Reach(z) ==
  CASE z = "in"        -> {"in"}
    [] z = "root"      -> {"root", "in"}
    [] z = "base"      -> {"base", "sibling", "siblingIn", "root", "in"}
    [] z = "sibling"   -> {"sibling", "siblingIn"}
    [] z = "siblingIn" -> {"siblingIn"}
    [] z = "outside"   -> {"outside", "base", "sibling", "siblingIn", "root", "in"}
    [] OTHER           -> {}

\* the DefaultLayout does not build a path from the source name of RENAME:
\* it matches the sub-directory name against os.listdir(root), which never
\* returns '.' or '..'
UsesPath(layout, slot) ==
  slot \in PathSlots /\ ~(layout = "pp" /\ slot = "RENAMEfrom")

\* INBOX is refused before the layout is consulted in these slots
InboxRefused == {"CREATE", "DELETE", "RENAMEfrom", "RENAMEto"}

OkZone(z, slot) ==
  \/ z \in {"in", "rejected"}
  \/ z = "root" /\ slot \notin RootForbidden

ConfinedIn(layout, nm, slot) ==
  LET e == Eff(slot, nm) IN
  \/ ~UsesPath(layout, slot)
  \/ e = <<"I">> /\ slot \in InboxRefused
  \/ /\ OkZone(Resolve(layout, e), slot)
     /\ slot \in PrefixSlots =>
          \A z \in Prefixes(layout, e) : z \in {"in", "root", "rejected"}

Bad(layout, nm) == {s \in Slots : ~ConfinedIn(layout, nm, s)}

\* named deviation classes: a syntactic feature of the (effective) name
\* ("Unclassified" = no feature this file has a name for; harmless unless the
\* name breaks confinement in some slot, see Confined)
DevClass(layout, e) ==
  LET comps == Comps(layout, Split(e)) IN
  IF layout = "pp"
  THEN IF comps[1] = <<"DOT">> THEN "PP_SubdirIsDot"              \* name ''
       ELSE IF comps[1] = <<"DOT", "DOT">> THEN "PP_SubdirIsDotDot"  \* '.', '/'
       ELSE IF "base" \in Prefixes(layout, e) THEN "PP_ParentIsDotDot" \* './/', '///x' ...
       ELSE "Unclassified"
  ELSE IF HasDotDot(comps) THEN "FS_DotDotComponent"
       ELSE IF ZoneOf(comps) = "root" THEN "FS_RootAlias"       \* '', '.', '/', './/' ...
       ELSE "Unclassified"

\* everything the harness compares the server with, per slot group
View(layout, nm) ==
  [g \in Groups |->
     LET e == EffG(g, nm) IN
     [zone    |-> Resolve(layout, e),
      pzones  |-> Prefixes(layout, e),
      allowed |-> Reach(Resolve(layout, e)) \cup Prefixes(layout, e),
      cls     |-> DevClass(layout, e)]]

\* longer names of interest beyond the exhaustive bound (cfg: ExtraNames <- DeepNames)
DeepNames == {
  <<"DOT", "DOT", "SEP", "DOT", "DOT">>,                          \* ../..
  <<"DOT", "DOT", "SEP", "a", "SEP", "a">>,                       \* ../a/a
  <<"DOT", "DOT", "SEP", "a", "SEP", "DOT", "DOT">>,              \* ../a/..
  <<"DOT", "DOT", "SEP", "SEP", "a">>,                            \* ..//a
  <<"DOT", "SEP", "DOT", "DOT", "SEP", "a">>,                     \* ./../a
  <<"SEP", "DOT", "DOT", "SEP", "a", "SEP", "a">>,                \* /../a/a
  <<"a", "SEP", "DOT", "DOT", "SEP", "DOT", "DOT">>,              \* a/../..
  <<"a", "SEP", "DOT", "DOT", "SEP", "DOT", "DOT", "SEP", "a">>,  \* a/../../a
  <<"a", "SEP", "DOT", "DOT", "SEP", "DOT", "DOT", "SEP", "a", "SEP", "a">>,
  <<"DOT", "DOT", "SEP", "DOT", "DOT", "SEP", "a">>,              \* ../../a
  <<"DOT", "DOT", "SEP", "a", "SEP", "a", "SEP", "a">>,           \* ../a/a/a
  <<"a", "SEP", "DOT", "DOT", "SEP", "a">>,                       \* a/../a (confined)
  <<"a", "SEP", "a", "SEP", "DOT", "DOT", "SEP", "DOT", "DOT">>,  \* a/a/../.. (root)
  <<"DOT", "SEP", "SEP", "a", "SEP", "a">>,                       \* .//a/a ('++': parent '..')
  <<"a", "SEP", "a", "SEP", "a">>,                                \* a/a/a
  <<"DOT", "DOT", "DOT">>, <<"DOT", "DOT", "a">>,                 \* ... and ..a are ordinary
  <<"I">>, <<"I", "SEP">>, <<"I", "SEP", "a">>,                   \* INBOX INBOX/ INBOX/a
  <<"I", "SEP", "DOT", "DOT">>, <<"DOT", "SEP", "I">>             \* INBOX/.. ./INBOX
}

AllClasses == {"PP_SubdirIsDot", "PP_SubdirIsDotDot", "PP_ParentIsDotDot",
               "FS_DotDotComponent", "FS_RootAlias"}

-----------------------------------------------------------------------------
VARIABLES layout, name, view, bad
vars == <<layout, name, view, bad>>

Init ==
  /\ layout \in Layouts
  /\ name \in Names
  /\ view = View(layout, name)
  /\ bad = Bad(layout, name)

Next == UNCHANGED vars
Spec == Init /\ [][Next]_vars

Zones == {"in", "root", "base", "sibling", "siblingIn", "outside", "rejected"}

TypeOK ==
  /\ bad \subseteq Slots
  /\ \A g \in Groups : /\ view[g].zone \in Zones
                        /\ view[g].cls \in AllClasses \cup {"Unclassified"}

\* C08 at design level: every name that breaks confinement in some slot
\* belongs, in that slot, to a named and recorded deviation class
Confined == \A s \in bad : view[Group(s)].cls \in Deviations

\* sanity of the transcription: the '++' layout yields exactly one path
\* component, so it can reach at most the root itself or the base directory
PPOneComponent ==
  layout = "pp" => \A g \in Groups :
      /\ view[g].zone \in {"in", "root", "base", "rejected"}
      /\ view[g].pzones \subseteq {"in", "root", "base", "rejected"}

\* the zone vocabulary is closed: what a command may touch is made of zones
AllowedAreZones == \A g \in Groups : view[g].allowed \subseteq Zones
=============================================================================
