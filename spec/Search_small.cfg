\* exhaustive: every mailbox of <= 2 messages over a small message universe
\* (seen or not, recent suffix, any subset expunged-but-hidden and therefore
\* deleted, UIDs 101/103) x every key tree of depth <= 2 over 4 leaves (SEEN,
\* DELETED, a sequence set with "*", a UID range); invariants of the evaluator
SPECIFICATION Spec
CONSTANTS
  Exhaustive = TRUE
  Rewrites = FALSE
  MaxMsgs = 2
  Uids = {101, 103}
  SysFlags = {"Seen"}
  Kws = {}
  Sizes = {2}
  Days = {1}
  Shifts = {0}
  WithNoSent = FALSE
  WithRecent = TRUE
  Fields = {}
  Tokens = {}
  LeafOps = {"SEEN", "DELETED", "SEQ", "UID"}
  KwKeys = {}
  SizeKeys = {}
  DayKeys = {}
  HdrKeys = {}
  SeqSets <- SmallSeqSets
  UidSets <- SmallUidSets
  DateModes = {"ww"}
  Devs = {"BodyKeyMatchesHeaders", "UidSearchSeqSetAsUid", "DoubleNotRejected"}
  NumMb = 0
  NumLeaf = 0
  NumLeafSets = 0
  LeafSetSize = 0
  NumD1 = 0
  NumD2 = 0
INVARIANT MailboxOK
INVARIANT InvNot
INVARIANT InvOr
INVARIANT InvAnd
INVARIANT InvUidSeq
INVARIANT InvEquiv
INVARIANT InvRewrite
INVARIANT InvDev
