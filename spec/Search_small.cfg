\* exhaustive: every mailbox of <= 2 messages over a small message universe x
\* every key tree of depth <= 2 over 4 leaves; invariants of the evaluator
SPECIFICATION Spec
CONSTANTS
  Exhaustive = TRUE
  Rewrites = FALSE
  MaxMsgs = 1
  Uids = {101, 103}
  SysFlags = {"Seen"}
  Kws = {}
  Sizes = {2}
  Days = {1}
  Shifts = {0}
  Fields = {"Subject"}
  Tokens = {}
  LeafOps = {"SEEN", "HEADER", "SEQ", "UID"}
  KwKeys = {}
  SizeKeys = {}
  DayKeys = {}
  HdrKeys = {"Subject"}
  SeqSets <- SmallSeqSets
  UidSets <- SmallUidSets
  DateModes = {"written", "utc"}
  Devs = {"BodyKeyMatchesHeaders", "UidSearchSeqSetAsUid", "DoubleNotRejected"}
  NumMb = 0
  NumLeaf = 0
  NumLeafSets = 0
  LeafSetSize = 0
  NumD1 = 0
  NumD2 = 0
INVARIANT MailboxOK
INVARIANT InvNot
INVARIANT InvOr
INVARIANT InvAnd
INVARIANT InvUidSeq
INVARIANT InvEquiv
INVARIANT InvDev
