------------------------------- MODULE Search -------------------------------
(***************************************************************************)
(* C13 - reference evaluator of the IMAP SEARCH key algebra (RFC 3501       *)
(* 6.4.4, 6.4.8; RFC 2180 4.3 for expunged-but-unannounced messages).       *)
(*                                                                         *)
(* The initial states are the mailbox views; one step asks one search        *)
(* program in a view, so every successor state is one                       *)
(* <<mailbox view, search program, expected answer>> triple:                *)
(*   - `mbox`  : the session's current view, a sequence of abstract         *)
(*               messages (position = message sequence number).  A message  *)
(*               with hidden = TRUE was expunged by another session and the *)
(*               expunge has not been announced to this session yet: it     *)
(*               still occupies its sequence number.  (Answer states drop   *)
(*               it and keep `mbid`: the harness reads the state graph.)    *)
(*   - `key`   : the search program, a tree of search keys; `rw`: it is a   *)
(*               rewriting (Equivs) of a program picked by KeysFor.         *)
(*   - `exp`   : what the server may answer to SEARCH (`exp.seq`, sets of   *)
(*               sequence numbers) and to UID SEARCH (`exp.uid`, sets of    *)
(*               UIDs): `alts` is the SET of id-sets the RFCs allow;        *)
(*               `dev[D]` the id-sets a server showing exactly the named    *)
(*               deviations D (known findings) would give, listed only      *)
(*               where they differ from `alts`.                             *)
(*   - `bad`   : reasons for which a tagged BAD is explained                *)
(*               ("SeqBeyondView": allowed by RFC 3501; "DoubleNotRejected":*)
(*               a named deviation).                                        *)
(*   - `law`   : the algebraic laws that FAIL for this triple (invariants:  *)
(*               none does).                                                *)
(*                                                                         *)
(* With Exhaustive = TRUE every mailbox over the configured universes and   *)
(* every key tree of depth <= 2 over the configured leaves is enumerated;   *)
(* with Exhaustive = FALSE the same sets are sampled with TLC's seeded      *)
(* Randomization (-seed and -fp fix the sample).                            *)
(***************************************************************************)
EXTENDS Integers, Sequences, FiniteSets, TLC, Randomization

CONSTANTS
    Exhaustive,   \* BOOLEAN
    Rewrites,     \* BOOLEAN: generate the equivalent programs as states too
    \* ---- message universe
    MaxMsgs,      \* a view has 0..MaxMsgs messages
    Uids,         \* UIDs a message may have (the dict backend starts at 101)
    SysFlags,     \* subset of {"Seen","Deleted","Flagged","Answered","Draft"}
    Kws,          \* keywords a message may carry
    Sizes,        \* abstract sizes (octets above a fixed base)
    Days,         \* day indices of the dates as written (internal and sent)
    Shifts,       \* (UTC day) - (written day) of a date-time: subset of {-1,0,1}
    WithNoSent,   \* BOOLEAN: messages without a Date: header occur
    WithRecent,   \* BOOLEAN: views with \Recent messages occur
    Fields,       \* header fields a message may have
    Tokens,       \* searchable words
    \* ---- key universe
    LeafOps,      \* operators of the leaf keys that are generated
    KwKeys,       \* keywords named by KEYWORD/UNKEYWORD (some carried by no message)
    SizeKeys,     \* n of LARGER/SMALLER
    DayKeys,      \* d of the six date keys
    HdrKeys,      \* field names of HEADER (some present in no message)
    SeqSets,      \* sequence-set keys: sequences of <<lo, hi>>, 0 stands for "*"
    UidSets,      \* UID-set keys, same shape
    \* ---- latitude / deviations
    DateModes,    \* readings of "disregarding time and timezone": subset of {"ww","wu","uw","uu"},
                  \*   first letter internal date, second sent date; w = the date as written,
                  \*   u = the UTC date (a store may keep the internal date as an instant)
    Devs,         \* named deviations evaluated next to the ideal semantics
    \* ---- sampling (Exhaustive = FALSE)
    NumMb, NumLeaf, NumLeafSets, LeafSetSize, NumD1, NumD2

VARIABLES mbid, mbox, key, rw, exp, bad, law

vars == <<mbid, mbox, key, rw, exp, bad, law>>

NoKey  == [op |-> "NONE"]
NoSent == [d |-> -100, s |-> 0]      \* the message has no Date: header
Words  == Tokens \cup {"p"}          \* "p": some other word (the field is present)

---------------------------------------------------------------------------
(* Universes of set keys for the configurations (a cfg file cannot write     *)
(* tuples): a set is a sequence of ranges <<lo, hi>>, n alone is <<n, n>>,   *)
(* 0 is "*".                                                                *)

N(a)     == <<a, a>>
StdSeqSets ==   \* views have <= 3 messages: 4 is beyond every view
    { <<N(1)>>, <<N(2)>>, <<N(3)>>, <<N(0)>>, <<N(4)>>,
      <<<<1, 2>>>>, <<<<2, 3>>>>, <<<<3, 1>>>>, <<<<2, 0>>>>, <<<<0, 1>>>>, <<<<4, 0>>>>,
      <<N(1), N(3)>>, <<N(1), N(0)>>, <<<<3, 0>>, N(1)>>, <<<<1, 2>>, <<2, 3>>>> }
StdUidSets ==   \* messages have UIDs in 101..105
    { <<N(101)>>, <<N(103)>>, <<N(105)>>, <<N(0)>>, <<N(100)>>,
      <<<<102, 104>>>>, <<<<104, 102>>>>, <<<<103, 0>>>>, <<<<0, 102>>>>, <<<<106, 0>>>>,
      <<<<1, 0>>>>, <<<<2, 3>>>>, <<N(101), N(104)>>, <<<<101, 102>>, <<105, 0>>>>,
      <<N(102), <<104, 0>>>> }
StdShifts  == {-1, 0, 1}          \* (a cfg file cannot write negative numbers)
SmallSeqSets == { <<<<2, 0>>>> }
SmallUidSets == { <<<<102, 101>>>> }
LowUidSets ==   \* messages have UIDs in 1..5 (a store that numbers from 1)
    { <<N(1)>>, <<N(3)>>, <<N(5)>>, <<N(0)>>, <<N(7)>>,
      <<<<2, 4>>>>, <<<<4, 2>>>>, <<<<3, 0>>>>, <<<<0, 2>>>>, <<<<6, 0>>>>,
      <<<<1, 0>>>>, <<N(1), N(4)>>, <<<<1, 2>>, <<5, 0>>>>, <<N(2), <<4, 0>>>> }

---------------------------------------------------------------------------
(* Key constructors *)

Leaf(o)     == [op |-> o]
Not(k)      == [op |-> "NOT", k |-> k]
Or(a, b)    == [op |-> "OR", a |-> a, b |-> b]
And(ks)     == [op |-> "AND", ks |-> ks]      \* top level: k1 k2 ..; nested: (k1 k2 ..)

FlagOf   == [ANSWERED |-> "Answered", DELETED |-> "Deleted", DRAFT |-> "Draft",
             FLAGGED |-> "Flagged", RECENT |-> "Recent", SEEN |-> "Seen"]
UnFlagOf == [UNANSWERED |-> "Answered", UNDELETED |-> "Deleted", UNDRAFT |-> "Draft",
             UNFLAGGED |-> "Flagged", OLD |-> "Recent", UNSEEN |-> "Seen"]
FieldOf  == [FROM |-> "From", TO |-> "To", CC |-> "Cc", BCC |-> "Bcc", SUBJECT |-> "Subject"]

SimpleOps == {"ALL", "NEW"} \cup DOMAIN FlagOf \cup DOMAIN UnFlagOf
DateOps   == {"BEFORE", "ON", "SINCE", "SENTBEFORE", "SENTON", "SENTSINCE"}

AllLeaves ==
    LET ops == LeafOps IN
       {Leaf(o) : o \in SimpleOps \cap ops}
  \cup {[op |-> o, w |-> w] : o \in {"KEYWORD", "UNKEYWORD"} \cap ops, w \in KwKeys}
  \cup {[op |-> o, n |-> n] : o \in {"LARGER", "SMALLER"} \cap ops, n \in SizeKeys}
  \cup {[op |-> o, d |-> d] : o \in DateOps \cap ops, d \in DayKeys}
  \cup {[op |-> o, s |-> s] : o \in (DOMAIN FieldOf \cup {"BODY", "TEXT"}) \cap ops, s \in Tokens}
  \cup {[op |-> "HEADER", f |-> f, s |-> s] : f \in (IF "HEADER" \in ops THEN HdrKeys ELSE {}),
                                              s \in Tokens \cup {""}}
  \cup {[op |-> "SEQ", set |-> s] : s \in (IF "SEQ" \in ops THEN SeqSets ELSE {})}
  \cup {[op |-> "UID", set |-> s] : s \in (IF "UID" \in ops THEN UidSets ELSE {})}

(* one more level of structure over the keys in S *)
Comp(S) ==    {Not(k) : k \in S}
         \cup {Or(a, b) : a \in S, b \in S}
         \cup {And(<<a>>) : a \in S}
         \cup {And(<<a, b>>) : a \in S, b \in S}
And3(S) == {And(<<a, b, c>>) : a \in S, b \in S, c \in S}

Depth1(L) == L \cup Comp(L)
Depth2(L) == Depth1(L) \cup Comp(Depth1(L))

---------------------------------------------------------------------------
(* The evaluator *)

\* number x is in the sequence set `set`; 0 is "*" = max; a range is unordered
InRange(x, r, max) ==
    LET a == IF r[1] = 0 THEN max ELSE r[1]
        b == IF r[2] = 0 THEN max ELSE r[2]
    IN  (a <= x /\ x <= b) \/ (b <= x /\ x <= a)
InSet(x, set, max) == \E i \in 1..Len(set) : InRange(x, set[i], max)

MaxUid(v) == IF Len(v) = 0 THEN 0 ELSE v[Len(v)].uid

\* the day a date-time lies on: as written, or after conversion to UTC
DayOf(dt, mode) == IF mode = "utc" THEN dt.d + dt.s ELSE dt.d
IMode == [ww |-> "written", wu |-> "written", uw |-> "utc", uu |-> "utc"]
SMode == [ww |-> "written", wu |-> "utc", uw |-> "written", uu |-> "utc"]

InHeaders(s, m) == \E f \in DOMAIN m.hdr : s \in m.hdr[f]

Ideal == [date |-> "ww", body |-> "body", seq |-> "seq"]

FlagOps   == DOMAIN FlagOf
UnFlagOps == DOMAIN UnFlagOf
FieldOps  == DOMAIN FieldOf

RECURSIVE Eval(_, _, _, _)
Eval(k, v, p, c) ==
    LET m == v[p]
        o == k.op
    IN  CASE o = "NOT"            -> ~Eval(k.k, v, p, c)
          [] o = "OR"             -> Eval(k.a, v, p, c) \/ Eval(k.b, v, p, c)
          [] o = "AND"            -> \A i \in 1..Len(k.ks) : Eval(k.ks[i], v, p, c)
          [] o = "ALL"            -> TRUE
          [] o \in FlagOps        -> FlagOf[o] \in m.flags
          [] o \in UnFlagOps      -> UnFlagOf[o] \notin m.flags
          [] o = "NEW"            -> "Recent" \in m.flags /\ "Seen" \notin m.flags
          [] o = "KEYWORD"        -> k.w \in m.flags
          [] o = "UNKEYWORD"      -> k.w \notin m.flags
          [] o = "LARGER"         -> m.size > k.n
          [] o = "SMALLER"        -> m.size < k.n
          [] o = "BEFORE"         -> DayOf(m.int, IMode[c.date]) < k.d
          [] o = "ON"             -> DayOf(m.int, IMode[c.date]) = k.d
          [] o = "SINCE"          -> DayOf(m.int, IMode[c.date]) >= k.d
          [] o = "SENTBEFORE"     -> m.sent # NoSent /\ DayOf(m.sent, SMode[c.date]) < k.d
          [] o = "SENTON"         -> m.sent # NoSent /\ DayOf(m.sent, SMode[c.date]) = k.d
          [] o = "SENTSINCE"      -> m.sent # NoSent /\ DayOf(m.sent, SMode[c.date]) >= k.d
          [] o \in FieldOps       -> FieldOf[o] \in DOMAIN m.hdr /\ k.s \in m.hdr[FieldOf[o]]
          [] o = "HEADER"         -> /\ k.f \in DOMAIN m.hdr
                                     /\ IF k.s = "" THEN m.hdr[k.f] # {} ELSE k.s \in m.hdr[k.f]
          [] o = "BODY"           -> k.s \in m.body \/ (c.body = "text" /\ InHeaders(k.s, m))
          [] o = "TEXT"           -> k.s \in m.body \/ InHeaders(k.s, m)
          [] o = "UID"            -> InSet(m.uid, k.set, MaxUid(v))
          [] o = "SEQ"            -> IF c.seq = "uid" THEN InSet(m.uid, k.set, MaxUid(v))
                                                     ELSE InSet(p, k.set, Len(v))

Pos(v)       == 1..Len(v)
Res(k, v, c) == {p \in Pos(v) : Eval(k, v, p, c)}
Hidden(v)    == {p \in Pos(v) : v[p].hidden}

\* UID SEARCH, computed on its own (by UID, not by position)
ResU(k, v, c) == {u \in Uids : \E p \in Pos(v) : v[p].uid = u /\ Eval(k, v, p, c)}
HiddenU(v)    == {v[p].uid : p \in Hidden(v)}

RECURSIVE Mentions(_, _)
Mentions(k, ops) ==       \* some key of the tree has an operator in ops
    CASE k.op = "NOT" -> Mentions(k.k, ops)
      [] k.op = "OR"  -> Mentions(k.a, ops) \/ Mentions(k.b, ops)
      [] k.op = "AND" -> \E i \in 1..Len(k.ks) : Mentions(k.ks[i], ops)
      [] OTHER -> k.op \in ops

(* RFC 2180 4.3: a message expunged by another session but not yet announced  *)
(* may be searched (on whatever the server still has of it) or left out: the  *)
(* answer is determined on the other messages only.  RFC 3501 "disregarding   *)
(* time and timezone": every reading in DateModes is accepted.                *)
Alts(k, v, c)  == {(Res(k, v, [c EXCEPT !.date = dm]) \ Hidden(v)) \cup H :
                        dm \in DateModes, H \in SUBSET Hidden(v)}
AltsU(k, v, c) == {(ResU(k, v, [c EXCEPT !.date = dm]) \ HiddenU(v)) \cup H :
                        dm \in DateModes, H \in SUBSET HiddenU(v)}
ToUids(A, v)   == {v[p].uid : p \in A}

(* Named deviations (known findings live in known/C13.json):                 *)
(*   BodyKeyMatchesHeaders - BODY s is evaluated like TEXT s                  *)
(*   UidSearchSeqSetAsUid  - in UID SEARCH a sequence-set key is read as UIDs *)
(* A deviation is evaluated only for programs that mention the keys it is     *)
(* about, and listed only where it changes the answer.                        *)
Ctx(D, uidcmd) == [date |-> "ww",
                   body |-> IF "BodyKeyMatchesHeaders" \in D THEN "text" ELSE "body",
                   seq  |-> IF uidcmd /\ "UidSearchSeqSetAsUid" \in D THEN "uid" ELSE "seq"]

DevsFor(k, uidcmd) ==
       (IF Mentions(k, {"BODY"}) THEN Devs \cap {"BodyKeyMatchesHeaders"} ELSE {})
  \cup (IF uidcmd /\ Mentions(k, {"SEQ"}) THEN Devs \cap {"UidSearchSeqSetAsUid"} ELSE {})

Expect(k, v) ==
    LET sa == Alts(k, v, Ideal)
        ua == {ToUids(A, v) : A \in sa}
        sd == {D \in SUBSET DevsFor(k, FALSE) \ {{}} : Alts(k, v, Ctx(D, FALSE)) # sa}
        ud == {D \in SUBSET DevsFor(k, TRUE) \ {{}} :
                    {ToUids(A, v) : A \in Alts(k, v, Ctx(D, TRUE))} # ua}
    IN [seq |-> [alts |-> sa, dev |-> [D \in sd |-> Alts(k, v, Ctx(D, FALSE))]],
        uid |-> [alts |-> ua,
                 dev |-> [D \in ud |-> {ToUids(A, v) : A \in Alts(k, v, Ctx(D, TRUE))}]]]

(* RFC 3501 section 9, note on seq-number: "The server should respond with a *)
(* tagged BAD response to a command that uses a message sequence number       *)
(* greater than the number of messages in the selected mailbox.  This         *)
(* includes "*" if the selected mailbox is empty."  (should: both BAD and     *)
(* evaluating the key are accepted.)                                          *)
RECURSIVE SeqBeyond(_, _)
SeqBeyond(k, n) ==
    CASE k.op = "SEQ" -> \E i \in 1..Len(k.set) : \E j \in 1..2 :
                            k.set[i][j] > n \/ (k.set[i][j] = 0 /\ n = 0)
      [] k.op = "NOT" -> SeqBeyond(k.k, n)
      [] k.op = "OR"  -> SeqBeyond(k.a, n) \/ SeqBeyond(k.b, n)
      [] k.op = "AND" -> \E i \in 1..Len(k.ks) : SeqBeyond(k.ks[i], n)
      [] OTHER -> FALSE

RECURSIVE NotNot(_)
NotNot(k) ==
    CASE k.op = "NOT" -> k.k.op = "NOT" \/ NotNot(k.k)
      [] k.op = "OR"  -> NotNot(k.a) \/ NotNot(k.b)
      [] k.op = "AND" -> \E i \in 1..Len(k.ks) : NotNot(k.ks[i])
      [] OTHER -> FALSE

BadReasons(k, v) ==    (IF SeqBeyond(k, Len(v)) THEN {"SeqBeyondView"} ELSE {})
                  \cup (IF "DoubleNotRejected" \in Devs /\ NotNot(k) THEN {"DoubleNotRejected"} ELSE {})

---------------------------------------------------------------------------
(* Logically equivalent programs (RFC 3501 6.4.4 definitions of the keys) *)

Dual == [ANSWERED |-> "UNANSWERED", DELETED |-> "UNDELETED", DRAFT |-> "UNDRAFT",
         FLAGGED |-> "UNFLAGGED", RECENT |-> "OLD", SEEN |-> "UNSEEN",
         UNANSWERED |-> "ANSWERED", UNDELETED |-> "DELETED", UNDRAFT |-> "DRAFT",
         UNFLAGGED |-> "FLAGGED", OLD |-> "RECENT", UNSEEN |-> "SEEN"]
Flip(set) == [i \in 1..Len(set) |-> <<set[i][2], set[i][1]>>]

Equivs(k) ==
    LET o == k.op IN
    {Not(And(<<Not(k)>>))} \cup
    (IF o \notin {"NOT", "OR", "AND"} THEN {Not(Not(k)), And(<<k>>), Or(k, k)} ELSE {}) \cup
    CASE o \in DOMAIN Dual -> {Not(Leaf(Dual[o]))}
      [] o = "NEW"        -> {And(<<Leaf("RECENT"), Leaf("UNSEEN")>>)}
      [] o = "ALL"        -> {[op |-> "UID", set |-> <<<<1, 0>>>>], [op |-> "SEQ", set |-> <<<<1, 0>>>>]}
      [] o = "KEYWORD"    -> {Not([op |-> "UNKEYWORD", w |-> k.w])}
      [] o = "UNKEYWORD"  -> {Not([op |-> "KEYWORD", w |-> k.w])}
      [] o = "LARGER"     -> {Not([op |-> "SMALLER", n |-> k.n + 1])}
      [] o = "SMALLER"    -> {Not([op |-> "LARGER", n |-> k.n - 1])}
      [] o = "BEFORE"     -> {Not([op |-> "SINCE", d |-> k.d])}
      [] o = "SINCE"      -> {Not([op |-> "BEFORE", d |-> k.d]),
                              Or([op |-> "ON", d |-> k.d], [op |-> "SINCE", d |-> k.d + 1])}
      [] o = "ON"         -> {And(<<[op |-> "SINCE", d |-> k.d], [op |-> "BEFORE", d |-> k.d + 1]>>)}
      [] o = "SENTON"     -> {And(<<[op |-> "SENTSINCE", d |-> k.d], [op |-> "SENTBEFORE", d |-> k.d + 1]>>)}
      [] o = "SENTSINCE"  -> {Or([op |-> "SENTON", d |-> k.d], [op |-> "SENTSINCE", d |-> k.d + 1])}
      [] o \in DOMAIN FieldOf -> {[op |-> "HEADER", f |-> FieldOf[o], s |-> k.s]}
      [] o = "TEXT"       -> {Or(k, [op |-> "BODY", s |-> k.s])}
      [] o \in {"SEQ", "UID"} -> {[k EXCEPT !.set = Flip(k.set)]} \cup
                                 IF Len(k.set) = 2
                                 THEN {Or([k EXCEPT !.set = <<k.set[1]>>], [k EXCEPT !.set = <<k.set[2]>>])}
                                 ELSE {}
      [] o = "NOT"        -> IF k.k.op \in DOMAIN Dual THEN {Leaf(Dual[k.k.op])} ELSE {}
      [] o = "OR"         -> {Or(k.b, k.a), Not(And(<<Not(k.a), Not(k.b)>>))}
      [] o = "AND"        -> IF Len(k.ks) = 2
                             THEN {And(<<k.ks[2], k.ks[1]>>), Not(Or(Not(k.ks[1]), Not(k.ks[2]))),
                                   And(<<And(<<k.ks[1]>>), k.ks[2]>>)}
                             ELSE IF Len(k.ks) = 3
                             THEN {And(<<k.ks[3], And(<<k.ks[1], k.ks[2]>>)>>)}
                             ELSE {k.ks[1]}
      [] OTHER -> {}

---------------------------------------------------------------------------
(* Mailboxes *)

RECURSIVE Sorted(_)
Sorted(S) == IF S = {} THEN <<>>
             ELSE LET x == CHOOSE x \in S : \A y \in S : x <= y
                  IN  <<x>> \o Sorted(S \ {x})

DateTimes == [d : Days, s : Shifts]

\* everything but uid, \Recent, hidden
MsgCore == [flags : SUBSET (SysFlags \cup Kws), size : Sizes, int : DateTimes,
            sent : DateTimes \cup (IF WithNoSent THEN {NoSent} ELSE {}), hdr : [Fields -> SUBSET Words],
            body : SUBSET Tokens]

(* \Recent: the messages that arrived after the last session that had the   *)
(* mailbox selected are recent for this session: a suffix of the view.       *)
(* A hidden (expunged elsewhere) message necessarily carried \Deleted.       *)
Mk(core, u, recent, hid) ==
    [uid |-> u, hidden |-> hid, size |-> core.size, int |-> core.int, sent |-> core.sent,
     hdr |-> core.hdr, body |-> core.body,
     flags |-> core.flags \cup (IF recent THEN {"Recent"} ELSE {})
                          \cup (IF hid THEN {"Deleted"} ELSE {})]

Build(n, us, nold, hid, cores) ==
    [j \in 1..n |-> Mk(cores[j], us[j], j > nold, j \in hid)]

AllMailboxes ==
    UNION { { Build(n, Sorted(U), nold, hid, cores) :
                U \in {U \in SUBSET Uids : Cardinality(U) = n},
                nold \in (IF WithRecent THEN 0..n ELSE {n}), hid \in SUBSET (1..n), cores \in [1..n -> MsgCore] }
            : n \in 0..MaxMsgs }

RandCore(j) ==
    [flags |-> RandomElement(SUBSET (SysFlags \cup Kws)),
     size  |-> RandomElement(Sizes),
     int   |-> RandomElement(DateTimes),
     sent  |-> IF WithNoSent /\ RandomElement(1..8) = 1 THEN NoSent ELSE RandomElement(DateTimes),
     hdr   |-> [f \in Fields |-> IF RandomElement(1..3) = 1 THEN {} ELSE RandomElement(SUBSET Words)],
     body  |-> RandomElement(SUBSET Tokens)]

RandMailbox(i) ==
    LET n == IF RandomElement(1..8) = 1 THEN RandomElement(0..MaxMsgs) ELSE MaxMsgs
    IN  Build(n, Sorted(RandomSubset(n, Uids)),
              IF WithRecent THEN RandomElement(0..n) ELSE n,
              IF RandomElement(1..3) = 1 THEN RandomElement(SUBSET (1..n)) ELSE {},
              [j \in 1..n |-> RandCore(j)])

(* TLC evaluates a constant-level bound set of a quantifier once and for all: *)
(* the draws mention the view so that every view gets its own sample.         *)
Draw(n, S, v) == RandomSubset(n + 0 * Len(v), S)

SampleKeys(v) ==
         Draw(NumLeaf, AllLeaves, v)
    \cup UNION { LET L == Draw(LeafSetSize + 0 * j, AllLeaves, v)
                 IN  Draw(NumD1, Comp(L) \cup And3(L), v)
                     \cup Draw(NumD2, Comp(Depth1(L)) \ Depth1(L), v)
                 : j \in 1..NumLeafSets }

KeysFor(v) == IF Exhaustive THEN Depth2(AllLeaves) ELSE SampleKeys(v)

---------------------------------------------------------------------------
(* Sanity of the model itself: the algebraic laws, evaluated for the program *)
(* k on the view v.  Laws(k, v) is the set of laws that FAIL; it is stored   *)
(* in the state (`law`) when the program is asked, and the invariants below  *)
(* say it is empty.  (The answer states do not carry the mailbox: the state  *)
(* graph is what the harness reads the expected answers from.)               *)

Law(name, holds) == IF holds THEN {} ELSE {name}

Laws(k, v) ==
    LET R(x) == Res(x, v, Ideal)
        P    == Pos(v)
    IN  \* NOT is the complement within the view, NOT NOT k is k
        Law("Not", /\ R(Not(k)) = P \ R(k)
                   /\ R(Not(Not(k))) = R(k))
        \* OR is union, and OR a b == NOT (NOT a NOT b)
   \cup Law("Or", k.op = "OR" =>
                   /\ R(k) = R(k.a) \cup R(k.b)
                   /\ R(k) = R(Not(And(<<Not(k.a), Not(k.b)>>))))
        \* several keys are the intersection
   \cup Law("And", k.op = "AND" =>
                   R(k) = {p \in P : \A i \in 1..Len(k.ks) : p \in R(k.ks[i])})
        \* the UID answer (evaluated by UID, on its own) is the sequence-number
        \* answer mapped through the view
   \cup Law("UidSeq", /\ ResU(k, v, Ideal) = ToUids(R(k), v)
                      /\ AltsU(k, v, Ideal) = {ToUids(A, v) : A \in Alts(k, v, Ideal)}
                      \* (Ideal reads dates "as written, as written"; when the measured
                      \* reading of the server is another single one, its answer need not
                      \* be among the alternatives)
                      /\ Ideal.date \in DateModes => R(k) \in Alts(k, v, Ideal))
        \* every rewriting in Equivs(k) selects the same messages, under every
        \* reading of the dates
   \cup Law("Equiv", \A e \in Equivs(k) : \A dm \in DateModes :
                       Res(e, v, [Ideal EXCEPT !.date = dm]) = Res(k, v, [Ideal EXCEPT !.date = dm]))

---------------------------------------------------------------------------
(* The state machine *)

NoExp == [seq |-> [alts |-> {}, dev |-> <<>>], uid |-> [alts |-> {}, dev |-> <<>>]]

RECURSIVE SetToSeq(_)
SetToSeq(S) == IF S = {} THEN <<>>
               ELSE LET x == CHOOSE x \in S : TRUE IN <<x>> \o SetToSeq(S \ {x})
MailboxSeq == IF Exhaustive THEN SetToSeq(AllMailboxes) ELSE <<>>    \* numbered, for mbid

Init == /\ IF Exhaustive THEN \E i \in 1..Len(MailboxSeq) : mbid = i /\ mbox = MailboxSeq[i]
                         ELSE \E i \in 1..NumMb : mbid = i /\ mbox = RandMailbox(i)
        /\ key = NoKey /\ rw = FALSE /\ exp = NoExp /\ bad = {} /\ law = {}

\* the program e is asked in the view mbox; e is k itself or a rewriting of k
Answer(k, e) == /\ key = NoKey
                /\ key' = e
                /\ rw'  = (e # k)
                /\ exp' = Expect(e, mbox)
                /\ bad' = BadReasons(e, mbox)
                /\ law' = IF e = k THEN Laws(k, mbox)
                          ELSE Law("Rewrite", Alts(e, mbox, Ideal) = Alts(k, mbox, Ideal))
                /\ mbox' = <<>>
                /\ UNCHANGED mbid

Ask(k)        == Answer(k, k)
Rewrite(k, e) == Answer(k, e)

Next == /\ key = NoKey        \* (first: KeysFor is costly and answer states have no successor)
        /\ \E k \in KeysFor(mbox) :
              \/ Ask(k)
              \/ Rewrites /\ \E e \in Equivs(k) \ {k} : Rewrite(k, e)

Spec == Init /\ [][Next]_vars

---------------------------------------------------------------------------

MailboxOK ==
    /\ Len(mbox) <= MaxMsgs
    /\ \A p \in Pos(mbox) : /\ mbox[p].uid \in Uids
                            /\ p > 1 => mbox[p - 1].uid < mbox[p].uid
                            /\ mbox[p].hidden => "Deleted" \in mbox[p].flags
                            /\ (p > 1 /\ "Recent" \in mbox[p - 1].flags) => "Recent" \in mbox[p].flags
                            /\ mbox[p].sent = NoSent \/ mbox[p].sent \in DateTimes

InvNot     == "Not" \notin law
InvOr      == "Or" \notin law
InvAnd     == "And" \notin law
InvUidSeq  == "UidSeq" \notin law
InvEquiv   == "Equiv" \notin law
InvRewrite == "Rewrite" \notin law

\* a deviation is listed only where it changes the answer; answers lie in the view
InvDev ==
    /\ \A D \in DOMAIN exp.seq.dev : exp.seq.dev[D] # exp.seq.alts
    /\ \A D \in DOMAIN exp.uid.dev : exp.uid.dev[D] # exp.uid.alts
    /\ \A A \in exp.uid.alts : A \subseteq Uids

=============================================================================
