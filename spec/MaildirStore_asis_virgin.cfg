SPECIFICATION Spec
CONSTANTS
  Names = {"INBOX", "Box"}
  MaxMsgs = 1
  MaxOps = 2
  MaxSel = 2
  MaxCrashes = 1
  FlagSet = {"S", "T"}
  AppendFlags = {{}, {"T"}}
  Dev = {"MoveKeepsSourceRecord"}
  Tol = {"MoveKeepsSourceRecord"}
  OtherFs = FALSE
  Virgin = TRUE
  Existing = {}
INVARIANT TypeOK
INVARIANT AckedSurvive
INVARIANT AckedFlagsPersist
INVARIANT NoUidReuse
INVARIANT ControlFilesReadable
INVARIANT AckedSubscriptionsPersist
INVARIANT AckedCreatesPersist
CHECK_DEADLOCK FALSE
