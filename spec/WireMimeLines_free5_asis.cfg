SPECIFICATION Spec
CONSTANTS
  MaxLines = 5
  Prefix <- PrefixNone
  Alphabet <- AlphaAll
  Fixed <- DevsNone
INVARIANT TypeOK
INVARIANT OnlyKnown
INVARIANT KnownDeviates
