\* seeded sample (quick tier): NumMb random mailboxes of <= 3 messages over the
\* full message universe; per mailbox NumLeaf single keys, and per leaf set
\* (NumLeafSets sets of LeafSetSize random leaves) NumD1 programs of depth 1
\* and NumD2 of depth 2; every program also in its logically equivalent
\* spellings (Rewrites).  Run with -seed <VERIF_SEED> -fp <n>: same sample.
SPECIFICATION Spec
CONSTANTS
  Exhaustive = FALSE
  Rewrites = TRUE
  MaxMsgs = 3
  Uids = {101, 102, 103, 104, 105}
  SysFlags = {"Seen", "Deleted", "Flagged", "Answered", "Draft"}
  Kws = {"kw"}
  Sizes = {1, 2, 3}
  Days = {0, 1, 2}
  Shifts <- StdShifts
  WithNoSent = TRUE
  WithRecent = TRUE
  Fields = {"From", "To", "Cc", "Bcc", "Subject", "XV"}
  Tokens = {"t1", "t2"}
  LeafOps = {"ALL", "NEW", "ANSWERED", "DELETED", "DRAFT", "FLAGGED", "RECENT", "SEEN",
             "UNANSWERED", "UNDELETED", "UNDRAFT", "UNFLAGGED", "OLD", "UNSEEN",
             "KEYWORD", "UNKEYWORD", "LARGER", "SMALLER",
             "BEFORE", "ON", "SINCE", "SENTBEFORE", "SENTON", "SENTSINCE",
             "FROM", "TO", "CC", "BCC", "SUBJECT", "HEADER", "BODY", "TEXT", "SEQ", "UID"}
  KwKeys = {"kw", "nokw"}
  SizeKeys = {0, 1, 2, 3}
  DayKeys = {0, 1, 2, 3}
  HdrKeys = {"From", "To", "Cc", "Bcc", "Subject", "XV", "XN"}
  SeqSets <- StdSeqSets
  UidSets <- StdUidSets
  DateModes = {"ww", "wu", "uw", "uu"}
  Devs = {"BodyKeyMatchesHeaders", "UidSearchSeqSetAsUid", "DoubleNotRejected"}
  NumMb = 20
  NumLeaf = 40
  NumLeafSets = 6
  LeafSetSize = 4
  NumD1 = 12
  NumD2 = 24
INVARIANT MailboxOK
INVARIANT InvNot
INVARIANT InvOr
INVARIANT InvAnd
INVARIANT InvUidSeq
INVARIANT InvEquiv
INVARIANT InvRewrite
INVARIANT InvDev
