---------------------------- MODULE RecentModel ----------------------------
(***************************************************************************)
(* Reference model of the \Recent life cycle (C17) at the level of the     *)
(* property: two mailboxes, a few sessions that select / examine / fail to *)
(* select / close / reselect, deliveries by APPEND, COPY and MOVE.  It     *)
(* says where a message's \Recent may live (unclaimed in the mailbox, or   *)
(* with exactly one read-write selection) and TLC checks the property's    *)
(* clauses on it; its state graph is the source of the HISTORIES that are  *)
(* replayed on the real server (every edge, i.e. every action in every     *)
(* abstract situation) and judged by the observer Trace_Recent.tla.        *)
(***************************************************************************)
EXTENDS Naturals, FiniteSets, TLC

CONSTANTS Sess, MaxLen

Mbx == {"INBOX", "Box"}
Other(m) == IF m = "INBOX" THEN "Box" ELSE "INBOX"
NoSel == [m |-> "", rw |-> FALSE]

VARIABLES sel,       \* sel[s]: [m, rw] or NoSel
          unclaimed, \* unclaimed[m]: the mailbox holds messages nobody has been shown \Recent yet
          held,      \* held[s]: the session's selection has been given some message's \Recent
          has,       \* has[m]: the mailbox is not empty
          n
vars == <<sel, unclaimed, held, has, n>>

Init == /\ sel = [s \in Sess |-> NoSel]
        /\ unclaimed \in [Mbx -> BOOLEAN]        \* with / without a stored recent message at the start
        /\ held = [s \in Sess |-> FALSE]
        /\ has = [m \in Mbx |-> TRUE]
        /\ n = 0

Step == n < MaxLen /\ n' = n + 1
RwOf(m) == {s \in Sess : sel[s].m = m /\ sel[s].rw}

\* SELECT / EXAMINE m: the previous selection ends; a read-write one claims what is unclaimed
Select(s, m, w) ==
  /\ Step
  /\ sel' = [sel EXCEPT ![s] = [m |-> m, rw |-> w]]
  /\ held' = [held EXCEPT ![s] = w /\ unclaimed[m]]
  /\ unclaimed' = IF w THEN [unclaimed EXCEPT ![m] = FALSE] ELSE unclaimed
  /\ UNCHANGED has

\* SELECT of a mailbox that does not exist: NO, and nothing is selected any more
SelectFail(s) == /\ Step /\ sel' = [sel EXCEPT ![s] = NoSel]
                 /\ held' = [held EXCEPT ![s] = FALSE] /\ UNCHANGED <<unclaimed, has>>

Close(s) == /\ sel[s] # NoSel /\ Step /\ sel' = [sel EXCEPT ![s] = NoSel]
            /\ held' = [held EXCEPT ![s] = FALSE] /\ UNCHANGED <<unclaimed, has>>

\* the connection of s ENDS while it has a mailbox selected (after a command that did not
\* parse and LOGOUT, by EOF, or dropped inside IDLE); s comes back on a new connection with
\* nothing selected.  For \Recent this is Close - provided the server really forgets the
\* selection of a connection that is gone
Gone(s) == /\ sel[s] # NoSel /\ Step /\ sel' = [sel EXCEPT ![s] = NoSel]
           /\ held' = [held EXCEPT ![s] = FALSE] /\ UNCHANGED <<unclaimed, has>>

\* a delivery into m: to some read-write selection of m if there is one, else unclaimed
Deliver(m) == IF RwOf(m) = {}
              THEN unclaimed' = [unclaimed EXCEPT ![m] = TRUE] /\ UNCHANGED held
              ELSE \E t \in RwOf(m) : held' = [held EXCEPT ![t] = TRUE] /\ UNCHANGED unclaimed

Append(s, m) == Step /\ Deliver(m) /\ has' = [has EXCEPT ![m] = TRUE] /\ UNCHANGED sel

\* COPY / MOVE * of the selected mailbox into `to` (possibly itself)
Copy(s, to) == /\ sel[s] # NoSel /\ has[sel[s].m] /\ Step
               /\ Deliver(to) /\ has' = [has EXCEPT ![to] = TRUE] /\ UNCHANGED sel
Move(s, to) == /\ sel[s] # NoSel /\ sel[s].rw /\ has[sel[s].m] /\ Step
               /\ Deliver(to) /\ has' = [has EXCEPT ![to] = TRUE] /\ UNCHANGED sel

\* commands that must not move \Recent around
Noop(s) == sel[s] # NoSel /\ Step /\ UNCHANGED <<sel, unclaimed, held, has>>
StoreRecent(s) == sel[s] # NoSel /\ Step /\ UNCHANGED <<sel, unclaimed, held, has>>
Status(s, m) == Step /\ UNCHANGED <<sel, unclaimed, held, has>>

Next == \E s \in Sess :
          \/ \E m \in Mbx, w \in BOOLEAN : Select(s, m, w)
          \/ SelectFail(s) \/ Close(s) \/ Gone(s) \/ Noop(s) \/ StoreRecent(s)
          \/ \E m \in Mbx : Append(s, m) \/ Copy(s, m) \/ Move(s, m) \/ Status(s, m)
Spec == Init /\ [][Next]_vars

\* read-only selections never hold (= consume) a message's \Recent
ReadOnlyNeverHolds == \A s \in Sess : held[s] => sel[s].rw
\* after a read-write SELECT nothing in that mailbox is left unclaimed
ClaimedBySelect == \A s \in Sess : (sel[s] # NoSel /\ sel[s].rw) => ~unclaimed[sel[s].m]
=============================================================================
