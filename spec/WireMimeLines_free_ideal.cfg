SPECIFICATION Spec
CONSTANTS
  MaxLines = 4
  Prefix <- PrefixNone
  Alphabet <- AlphaAll
  Fixed <- AllDevs
INVARIANT TypeOK
INVARIANT Fidelity
INVARIANT PartSize
