---------------------------- MODULE RefMailbox ----------------------------
(***************************************************************************)
(* C10 - plain sequential reference model of the IMAP4rev1 message         *)
(* commands (RFC 3501 6.3.11 APPEND, 6.4.2 CLOSE, 6.4.3 EXPUNGE, 6.4.5     *)
(* FETCH, 6.4.6 STORE, 6.4.7 COPY, 6.4.8 UID; RFC 4315 UID EXPUNGE /       *)
(* APPENDUID / COPYUID; RFC 6851 MOVE).  ONE acting session, two           *)
(* mailboxes, and complete commands of ANOTHER session on the same         *)
(* mailboxes in between (OtherStore / OtherAppend / OtherExpunge below):   *)
(* the mailbox is shared and the model is sequential, so any interleaving  *)
(* of COMPLETE commands of several sessions is the model applied in that   *)
(* order.                                                                  *)
(*                                                                         *)
(* Nothing here is shaped after pymap: a mailbox is a map                  *)
(*      uid -> [f: flags, d: date index, c: content id]                    *)
(* and every command is one atomic action.  `last` is the abstract result  *)
(* of the last command - what the server must have answered:               *)
(*   cond      "OK" | "REFUSED" (tagged NO or BAD, nothing changed)        *)
(*   addr      the messages (uids) the command's set addresses            *)
(*   fetch     the FETCH data the command itself must produce:             *)
(*             {[u |-> uid, f |-> flags after the command]}                *)
(*   expunged  uids reported by untagged EXPUNGE                           *)
(*   pairs     {<<source uid, new uid>>} of COPYUID; APPENDUID is <<0,u>>  *)
(*   exists, uidnext   of SELECT (exists also: the EXISTS the acting       *)
(*             session is told after the other session's delivery)         *)
(*   choice    how points of RFC latitude were resolved at this step:      *)
(*             {<<point, resolution>>}, {} when there was none             *)
(*                                                                         *)
(* Points where RFC 3501 leaves latitude, and how they are modelled:       *)
(*  L1 a message SEQUENCE number greater than the number of messages       *)
(*     (including the star in an empty mailbox): "the server should respond *)
(*     with a tagged BAD" (section 9, seq-number).  Either REFUSED with    *)
(*     nothing changed ("strict") or OK with the numbers that do exist     *)
(*     ("lenient": the values of the set, star = number of messages,       *)
(*     a range is "all values between these two regardless of order").     *)
(*     UIDs are different: "a non-existent unique identifier is ignored    *)
(*     without any error message generated" (6.4.8) - no latitude, OK.     *)
(*  L2 \Recent in the flag list of STORE / APPEND ("R"): it cannot be      *)
(*     altered by the client (2.3.2): ignored ("lenient") or REFUSED.      *)
(*  L3 APPEND with a keyword the mailbox does not permit (PERMANENTFLAGS   *)
(*     lists neither it nor the wildcard): flags SHOULD be set: "keep" or   *)
(*     "drop".  STORE is held to the property: exactly the named PERMITTED *)
(*     flags are replaced / added / removed.                               *)
(* The constants OorLenient, OorStrict, RecLenient, RecStrict (the command *)
(* kinds for which that resolution of L1 / L2 is enabled) and AppendKw     *)
(* (L3) select the resolutions, so that the full nondeterministic model    *)
(* (graph: everything enabled) and the sub-model a given server exhibits   *)
(* (simulation) are the same text.                                         *)
(*                                                                         *)
(* A sequence set is a sequence of elements; an element is <<x>> (one      *)
(* number) or <<x, y>> (the range x:y); the number 0 stands for the star.  *)
(* <<<<2,0>>, <<1>>>> is the set 2:star,1.                                 *)
(***************************************************************************)
EXTENDS Naturals, Sequences, FiniteSets, TLC

CONSTANTS
  KwPermitted,  \* BOOLEAN: PERMANENTFLAGS of both mailboxes admits the keyword "K"
  OorLenient,   \* L1: command kinds that may go on with the numbers that exist
  OorStrict,    \* L1: command kinds that may refuse
  RecLenient,   \* L2: command kinds that may ignore \Recent in a flag list
  RecStrict,    \* L2: command kinds that may refuse it
  AppendKw,     \* subset of {"keep", "drop"}             (L3)
  Inits,        \* subset of {"std", "empty"}: initial contents of INBOX
  MaxCmds,      \* programs of at most this many commands
  MaxUid,       \* no UID beyond this one is assigned (bound of the model)
  Profile,      \* "q" | "t" | "full": the command menu (see the end)
  TwoLevel      \* BOOLEAN: choose the command KIND first (uniform -simulate)

Boxes == {"INBOX", "Box"}
Sys   == {"D", "S", "F", "A", "T"}      \* \Deleted \Seen \Flagged \Answered \Draft
Permitted == Sys \cup (IF KwPermitted THEN {"K"} ELSE {})     \* "K" = a keyword
\* "R" = \Recent, only ever an ARGUMENT

VARIABLES
  mb,        \* mb[b]: uid -> [f, d, c]
  nextuid,   \* nextuid[b]: the next UID the mailbox assigns (UIDNEXT)
  nextcid,   \* next content id (a new one per APPEND)
  sel,       \* the selected mailbox or "none"
  last,      \* abstract result of the last command
  ncmd,
  turn       \* "pick" or a command kind (TwoLevel only)

vars == <<mb, nextuid, nextcid, sel, last, ncmd, turn>>

---------------------------------------------------------------------------
(* Addressing - the RFC's definitions.                                     *)

MaxOf(S)  == CHOOSE x \in S : \A y \in S : y <= x
Pos(V, u) == Cardinality({x \in V : x <= u})        \* sequence number of u in V
Rank(A, u) == Cardinality({x \in A : x < u})        \* 0-based, ascending

Val(x, mx) == IF x = 0 THEN mx ELSE x               \* "*" -> the largest number in use
ElemVals(e, mx) ==
  IF Len(e) = 1 THEN {Val(e[1], mx)}
  ELSE LET a == Val(e[1], mx)  b == Val(e[2], mx)   \* "regardless of order"
       IN IF a <= b THEN a..b ELSE b..a
SetVals(s, mx) == UNION {ElemVals(s[i], mx) : i \in DOMAIN s}
Ends(s) == UNION {{s[i][j] : j \in DOMAIN s[i]} : i \in DOMAIN s}

\* L1: some sequence number of the set exceeds the number of messages
OutOfRange(s, V) ==
  LET n == Cardinality(V) IN \E x \in Ends(s) : IF x = 0 THEN n = 0 ELSE x > n

\* the messages of the view V a set addresses.  For UIDs "*" is the UID of the
\* last message or, if the mailbox is empty, UIDNEXT; a UID range n:* therefore
\* always contains the last message, even if n is higher than any assigned UID.
Addr(s, uidmode, V, unext) ==
  IF uidmode
  THEN LET mx == IF V = {} THEN unext ELSE MaxOf(V) IN {u \in V : u \in SetVals(s, mx)}
  ELSE LET n == Cardinality(V) IN {u \in V : Pos(V, u) \in SetVals(s, n)}

\* spelling of sets: S1(x) = "x", SR(a, b) = "a:b", S2(e1, e2) = "e1,e2"
S1(x)      == <<<<x>>>>
SR(a, b)   == <<<<a, b>>>>
S2(e1, e2) == <<e1, e2>>
\* MOVE into the selected mailbox itself is legal but exotic: the full menu
\* offers it with three shapes only (it would otherwise be half of all MOVEs)
SelfMoveShapes == {S1(0), SR(1, 0), S1(1)}

---------------------------------------------------------------------------
(* Effects on a world w = [mb, nu] - pure operators, so that MOVE can be   *)
(* stated twice (directly, and as COPY ; STORE +\Deleted ; UID EXPUNGE).   *)

Restrict(f, S) == [x \in S |-> f[x]]
Msg(f, d, c) == [f |-> f, d |-> d, c |-> c]

ApplyOp(op, old, G) ==
  CASE op = "replace" -> G
    [] op = "add"     -> old \cup G
    [] op = "remove"  -> old \ G

StoreOn(m, A, op, G) ==
  [u \in DOMAIN m |-> IF u \in A THEN [m[u] EXCEPT !.f = ApplyOp(op, @, G)] ELSE m[u]]

\* dm receives copies of sm's messages A under the UIDs nu, nu+1, ... in ascending
\* order of the source; flags, date and content are those of the source
NewUid(nu, A, x) == nu + Rank(A, x)
CopyInto(dm, nu, sm, A) ==
  [u \in DOMAIN dm \cup {NewUid(nu, A, x) : x \in A} |->
     IF u \in DOMAIN dm THEN dm[u]
     ELSE sm[CHOOSE x \in A : NewUid(nu, A, x) = u]]

WCopy(w, src, A, dest) ==
  [mb |-> [w.mb EXCEPT ![dest] = CopyInto(w.mb[dest], w.nu[dest], w.mb[src], A)],
   nu |-> [w.nu EXCEPT ![dest] = @ + Cardinality(A)]]
WStore(w, b, A, op, G) == [w EXCEPT !.mb[b] = StoreOn(@, A, op, G)]
WExpunge(w, b, R) == [w EXCEPT !.mb[b] = Restrict(@, (DOMAIN @) \ R)]
DeletedIn(m, S) == {u \in S \cap DOMAIN m : "D" \in m[u].f}

\* MOVE, stated directly: the destination gains copies, the source loses A
WMove(w, src, A, dest) ==
  LET nu    == w.nu[dest]
      added == {NewUid(nu, A, x) : x \in A}
      orig(u) == CHOOSE x \in A : NewUid(nu, A, x) = u
      dmap  == [u \in (DOMAIN w.mb[dest]) \cup added |->
                  IF u \in added THEN w.mb[src][orig(u)] ELSE w.mb[dest][u]]
      m1    == [w.mb EXCEPT ![dest] = dmap]
  IN [mb |-> [m1 EXCEPT ![src] = Restrict(@, (DOMAIN @) \ A)],
      nu |-> [w.nu EXCEPT ![dest] = nu + Cardinality(A)]]

W == [mb |-> mb, nu |-> nextuid]
SetW(w) == mb' = w.mb /\ nextuid' = w.nu

---------------------------------------------------------------------------
NoRes == [cmd |-> "init", cond |-> "OK", addr |-> {}, fetch |-> {}, expunged |-> {},
          pairs |-> {}, exists |-> 0, uidnext |-> 0, dest |-> "none", choice |-> {}]

Count == ncmd < MaxCmds /\ ncmd' = ncmd + 1
Turn(k) == /\ (TwoLevel => turn = k)
           /\ turn' = IF TwoLevel THEN "pick" ELSE turn

\* why: the latitude points present at this step, a subset of {"oor", "rec"}.
\* Refusal is allowed if the strict resolution of one of them is enabled;
\* going on requires the lenient resolution of all of them.
Points(oor, rec) == (IF oor THEN {"oor"} ELSE {}) \cup (IF rec THEN {"rec"} ELSE {})
StrictOK(cmd, why) == ("oor" \in why /\ cmd \in OorStrict) \/ ("rec" \in why /\ cmd \in RecStrict)
Lenient(cmd, why)  == ("oor" \in why => cmd \in OorLenient) /\ ("rec" \in why => cmd \in RecLenient)
\* what the step tells about the server: which point was resolved how (a
\* refusal with both points present does not say which one was refused)
Ch(why) == {<<p, "lenient">> : p \in why}
ChStrict(why) == IF Cardinality(why) = 1 THEN {<<p, "strict">> : p \in why} ELSE {<<"any", "strict">>}

Refused(cmd, why) ==
  /\ StrictOK(cmd, why)
  /\ last' = [NoRes EXCEPT !.cmd = cmd, !.cond = "REFUSED", !.choice = ChStrict(why)]
  /\ UNCHANGED <<mb, nextuid, nextcid, sel>>

View == DOMAIN mb[sel]
FetchOf(m, A) == {[u |-> u, f |-> m[u].f] : u \in A}

---------------------------------------------------------------------------
(* The commands.                                                           *)

\* (UID) STORE s FLAGS|+FLAGS|-FLAGS[.SILENT] (F)
Store(um, s, op, F, silent) ==
  /\ Turn("store") /\ Count /\ sel # "none"
  /\ LET why == Points(~um /\ OutOfRange(s, View), "R" \in F)
         A  == Addr(s, um, View, nextuid[sel])
         G  == (F \ {"R"}) \cap Permitted
         w2 == WStore(W, sel, A, op, G)
     IN \/ /\ Lenient("store", why)
           /\ SetW(w2) /\ UNCHANGED <<nextcid, sel>>
           /\ last' = [NoRes EXCEPT !.cmd = "store", !.addr = A,
                         !.fetch = IF silent THEN {} ELSE FetchOf(w2.mb[sel], A),
                         !.choice = Ch(why)]
        \/ Refused("store", why)

\* (UID) FETCH s (items): seen = some item is a body part fetched without .PEEK
Fetch(um, s, seen) ==
  /\ Turn("fetch") /\ Count /\ sel # "none"
  /\ LET why == Points(~um /\ OutOfRange(s, View), FALSE)
         A  == Addr(s, um, View, nextuid[sel])
         w2 == IF seen THEN WStore(W, sel, A, "add", {"S"}) ELSE W
     IN \/ /\ Lenient("fetch", why)
           /\ SetW(w2) /\ UNCHANGED <<nextcid, sel>>
           /\ last' = [NoRes EXCEPT !.cmd = "fetch", !.addr = A,
                         !.fetch = FetchOf(w2.mb[sel], A), !.choice = Ch(why)]
        \/ Refused("fetch", why)

\* EXPUNGE: exactly the messages flagged \Deleted
Expunge ==
  /\ Turn("expunge") /\ Count /\ sel # "none"
  /\ LET R == DeletedIn(mb[sel], View)
     IN /\ SetW(WExpunge(W, sel, R)) /\ UNCHANGED <<nextcid, sel>>
        /\ last' = [NoRes EXCEPT !.cmd = "expunge", !.expunged = R]

\* UID EXPUNGE s: only those that are also in the UID set
UidExpunge(s) ==
  /\ Turn("uidexpunge") /\ Count /\ sel # "none"
  /\ LET A == Addr(s, TRUE, View, nextuid[sel])
         R == DeletedIn(mb[sel], A)
     IN /\ SetW(WExpunge(W, sel, R)) /\ UNCHANGED <<nextcid, sel>>
        /\ last' = [NoRes EXCEPT !.cmd = "uidexpunge", !.addr = A, !.expunged = R]

\* (UID) COPY s dest: content, flags and date are duplicated
Copy(um, s, dest) ==
  /\ Turn("copy") /\ Count /\ sel # "none"
  /\ LET why == Points(~um /\ OutOfRange(s, View), FALSE)
         A == Addr(s, um, View, nextuid[sel])
     IN \/ /\ Lenient("copy", why)
           /\ nextuid[dest] + Cardinality(A) - 1 <= MaxUid
           /\ SetW(WCopy(W, sel, A, dest)) /\ UNCHANGED <<nextcid, sel>>
           /\ last' = [NoRes EXCEPT !.cmd = "copy", !.addr = A, !.dest = dest,
                         !.pairs = {<<x, NewUid(nextuid[dest], A, x)>> : x \in A},
                         !.choice = Ch(why)]
        \/ Refused("copy", why)

\* (UID) MOVE s dest
Move(um, s, dest) ==
  /\ Turn("move") /\ Count /\ sel # "none"
  /\ (Profile = "full" /\ dest = sel) => s \in SelfMoveShapes
  /\ LET why == Points(~um /\ OutOfRange(s, View), FALSE)
         A == Addr(s, um, View, nextuid[sel])
     IN \/ /\ Lenient("move", why)
           /\ nextuid[dest] + Cardinality(A) - 1 <= MaxUid
           /\ SetW(WMove(W, sel, A, dest)) /\ UNCHANGED <<nextcid, sel>>
           /\ last' = [NoRes EXCEPT !.cmd = "move", !.addr = A, !.dest = dest,
                         !.pairs = {<<x, NewUid(nextuid[dest], A, x)>> : x \in A},
                         !.expunged = A, !.choice = Ch(why)]
        \/ Refused("move", why)

\* APPEND dest (F) date literal: ONE new message with the given flags and date
\* (d = 0: no date given - the server's current time); allowed in every state.
\* cmd = "append": by the acting session; "oappend": by the other session (below)
AppendAs(cmd, dest, F, d) ==
  /\ Count /\ nextuid[dest] <= MaxUid
  /\ LET recent == "R" \in F
         unperm == "K" \in F /\ ~KwPermitted
         u == nextuid[dest]
     IN \/ /\ Lenient("append", Points(FALSE, recent))
           /\ \E kw \in (IF unperm THEN AppendKw ELSE {"na"}) :
                LET G == ((F \ {"R"}) \cap Permitted) \cup (IF kw = "keep" THEN {"K"} ELSE {})
                IN /\ mb' = [mb EXCEPT ![dest] =
                               [x \in (DOMAIN @) \cup {u} |-> IF x = u THEN Msg(G, d, nextcid) ELSE @[x]]]
                   /\ last' = [NoRes EXCEPT !.cmd = cmd, !.dest = dest, !.pairs = {<<0, u>>},
                                 !.exists = IF cmd = "oappend" /\ dest = sel
                                            THEN Cardinality(DOMAIN mb[dest]) + 1 ELSE 0,
                                 !.choice = Ch(Points(FALSE, recent))
                                             \cup (IF unperm THEN {<<"kw", kw>>} ELSE {})]
           /\ nextuid' = [nextuid EXCEPT ![dest] = u + 1]
           /\ nextcid' = nextcid + 1
           /\ UNCHANGED sel
        \/ Refused("append", Points(FALSE, recent))

AppendMsg(dest, F, d) == Turn("append") /\ AppendAs("append", dest, F, d)

\* CLOSE: the \Deleted messages are removed silently, back to "authenticated"
Close ==
  /\ Turn("close") /\ Count /\ sel # "none"
  /\ SetW(WExpunge(W, sel, DeletedIn(mb[sel], View)))
  /\ sel' = "none" /\ UNCHANGED nextcid
  /\ last' = [NoRes EXCEPT !.cmd = "close"]

\* SELECT b (a selected mailbox is given up WITHOUT expunging)
Select(b) ==
  /\ Turn("select") /\ Count
  /\ sel' = b /\ UNCHANGED <<mb, nextuid, nextcid>>
  /\ last' = [NoRes EXCEPT !.cmd = "select", !.dest = b,
                !.exists = Cardinality(DOMAIN mb[b]), !.uidnext = nextuid[b]]

---------------------------------------------------------------------------
(* Complete commands of ANOTHER session (same user) between two commands   *)
(* of the acting session.  Their effect on the shared mailbox is that of   *)
(* the same command given by the acting session; `last` says what the      *)
(* OTHER session was answered (addr, APPENDUID, expunged) and, where the   *)
(* acting session is synchronised (see below), what IT is told.            *)
(*                                                                         *)
(* Message sequence numbers are relative to what a session has been TOLD   *)
(* (7.4.1, 5.2): a message delivered by someone else has no sequence       *)
(* number in the acting session before that session received EXISTS, and   *)
(* an expunged one keeps its number until EXPUNGE was sent; what commands  *)
(* on such a not-yet-synchronised view do is largely left open (RFC 2180). *)
(* The model does not enter that window: View stays DOMAIN mb[sel].  An    *)
(* other-session action that changes the SET of messages of the selected   *)
(* mailbox therefore includes a NOOP of the acting session, which must     *)
(* report the change (EXISTS n / EXPUNGE of exactly those messages).  A    *)
(* flag change needs no such thing: OtherStore is followed directly by     *)
(* the acting session's next command, which must act on the mailbox as it  *)
(* IS (not as the session last saw it) - there is no latitude in that.     *)
(* Flag arguments of the other session never hold \Recent (L2 is about the *)
(* acting session's commands).                                             *)

\* in the exhaustive profiles not as the LAST command of a program (nothing of the
\* acting session would follow)
OtherOK == Profile = "full" \/ ncmd < MaxCmds - 1

\* the other session: SELECT sel ; UID STORE s FLAGS|+FLAGS|-FLAGS (F)
OtherStore(s, op, F) ==
  /\ Turn("ostore") /\ Count /\ sel # "none" /\ OtherOK /\ "R" \notin F
  /\ LET A == Addr(s, TRUE, View, nextuid[sel])
         G == F \cap Permitted
     IN /\ SetW(WStore(W, sel, A, op, G)) /\ UNCHANGED <<nextcid, sel>>
        /\ last' = [NoRes EXCEPT !.cmd = "ostore", !.addr = A]

\* the other session: APPEND dest (F) date literal [; the acting session, if dest is
\* its selected mailbox: NOOP -> EXISTS last.exists]
OtherAppend(dest, F, d) ==
  /\ Turn("oappend") /\ OtherOK /\ "R" \notin F /\ AppendAs("oappend", dest, F, d)

\* the other session: SELECT sel ; EXPUNGE ; the acting session: NOOP -> EXPUNGE of
\* exactly these messages
OtherExpunge ==
  /\ Turn("oexpunge") /\ Count /\ sel # "none" /\ OtherOK
  /\ LET R == DeletedIn(mb[sel], View)
     IN /\ SetW(WExpunge(W, sel, R)) /\ UNCHANGED <<nextcid, sel>>
        /\ last' = [NoRes EXCEPT !.cmd = "oexpunge", !.expunged = R]

---------------------------------------------------------------------------
(* Menus.  "q": quick exhaustive part, "t": thorough exhaustive part,      *)
(* "full": everything (simulation).  INBOX initially holds UIDs 1 2 4      *)
(* (3 was expunged): sequence number 3 is UID 4, sequence number 4 is out  *)
(* of range, UID 3 names an expunged message, 5 is beyond both.            *)


MaxNum == 6
ElemsAll   == {<<x>> : x \in 0..MaxNum} \cup {<<x, y>> : x, y \in 0..MaxNum}
ElemsSmall == {<<1>>, <<2>>, <<4>>, <<0>>, <<2, 0>>, <<1, 2>>, <<5, 3>>, <<6>>}
ShapesFull == {<<e>> : e \in ElemsAll} \cup {<<e1, e2>> : e1, e2 \in ElemsSmall}

FlagArgsFull == {{}, {"D"}, {"S"}, {"F", "A"}, {"K"}, {"D", "K"}, {"T", "S", "D"}, {"R", "F"}, {"R"}}
Ops == {"replace", "add", "remove"}

StoreMenu ==
  CASE Profile = "q" ->
       { <<FALSE, SR(1, 0), "add", {"D"}, FALSE>>,             \* STORE 1:* +FLAGS (\Deleted)
         <<TRUE,  SR(3, 2), "replace", {"S", "K"}, FALSE>>,    \* UID STORE 3:2 FLAGS (\Seen kw)
         <<FALSE, S1(4), "remove", {"D", "S"}, TRUE>>,         \* STORE 4 -FLAGS.SILENT (\Deleted \Seen)
         <<TRUE,  S1(0), "add", {"F", "R"}, FALSE>> }          \* UID STORE * +FLAGS (\Flagged \Recent)
    [] Profile = "t" ->
       { <<FALSE, SR(1, 0), "add", {"D"}, FALSE>>,
         <<TRUE,  SR(3, 2), "replace", {"S", "K"}, FALSE>>,
         <<FALSE, S1(4), "add", {"F"}, TRUE>>,
         <<TRUE,  S1(0), "remove", {"D", "S"}, FALSE>>,
         <<FALSE, SR(0, 2), "add", {"R", "A"}, FALSE>>,        \* STORE *:2 +FLAGS (\Recent \Answered)
         <<TRUE,  S2(<<4>>, <<4>>), "add", {"D", "K"}, TRUE>>, \* UID STORE 4,4 +FLAGS.SILENT (\Deleted kw)
         <<FALSE, S2(<<3>>, <<1>>), "replace", {}, FALSE>>,    \* STORE 3,1 FLAGS ()
         <<FALSE, S1(4), "remove", {"D", "S"}, TRUE>>,         \* STORE 4 -FLAGS.SILENT (\Deleted \Seen)
         <<TRUE,  SR(5, 0), "add", {"T"}, FALSE>>,             \* UID STORE 5:* +FLAGS (\Draft)
         <<FALSE, SR(2, 5), "remove", {"S", "F"}, FALSE>> }    \* STORE 2:5 -FLAGS (\Seen \Flagged)
    [] OTHER -> BOOLEAN \X ShapesFull \X Ops \X FlagArgsFull \X BOOLEAN

FetchMenu ==
  CASE Profile = "q" ->
       { <<FALSE, S1(1), TRUE>>,                               \* FETCH 1 (BODY[])
         <<TRUE,  SR(5, 0), FALSE>>,                           \* UID FETCH 5:* (BODY.PEEK[])
         <<FALSE, SR(0, 2), TRUE>> }                           \* FETCH *:2 (BODY[])
    [] Profile = "t" ->
       { <<FALSE, S1(1), TRUE>>, <<TRUE, SR(5, 0), FALSE>>, <<FALSE, S1(0), TRUE>>,
         <<TRUE,  SR(4, 2), TRUE>>,                            \* UID FETCH 4:2 (BODY[])
         <<FALSE, S2(<<2>>, <<2>>), FALSE>>,                   \* FETCH 2,2 (BODY.PEEK[])
         <<FALSE, SR(3, 0), TRUE>>,                            \* FETCH 3:* (BODY[])
         <<TRUE,  S2(<<0>>, <<1>>), TRUE>> }                   \* UID FETCH *,1 (BODY[])
    [] OTHER -> BOOLEAN \X ShapesFull \X BOOLEAN

UidExpungeMenu ==
  CASE Profile = "q" -> { SR(2, 3) }                           \* UID EXPUNGE 2:3
    [] Profile = "t" -> { SR(2, 3), SR(0, 4), S2(<<1>>, <<6>>) }
    [] OTHER -> ShapesFull

CopyMenu ==
  CASE Profile = "q" ->
       { <<FALSE, SR(3, 1), "Box">>,                           \* COPY 3:1 Box
         <<TRUE,  S2(<<4>>, <<4>>), "INBOX">> }                \* UID COPY 4,4 INBOX
    [] Profile = "t" ->
       { <<FALSE, SR(3, 1), "Box">>, <<TRUE, S2(<<4>>, <<4>>), "INBOX">>,
         <<TRUE,  SR(1, 0), "Box">>,                           \* UID COPY 1:* Box
         <<FALSE, S2(<<0>>, <<5>>), "Box">> }                  \* COPY *,5 Box
    [] OTHER -> BOOLEAN \X ShapesFull \X Boxes

MoveMenu ==
  CASE Profile = "q" ->
       { <<FALSE, S1(0), "Box">>,                              \* MOVE * Box
         <<TRUE,  SR(1, 2), "Box">> }                          \* UID MOVE 1:2 Box
    [] Profile = "t" ->
       { <<FALSE, S1(0), "Box">>, <<TRUE, SR(1, 2), "Box">>,
         <<FALSE, SR(2, 0), "Box">>,                           \* MOVE 2:* Box
         <<TRUE,  S2(<<4>>, <<3>>), "INBOX">> }                \* UID MOVE 4,3 INBOX
    [] OTHER -> BOOLEAN \X ShapesFull \X Boxes

AppendMenu ==
  CASE Profile = "q" ->
       { <<"INBOX", {"D", "K"}, 2>>,                           \* APPEND INBOX (\Deleted kw) date2
         <<"Box", {"R", "S"}, 0>> }                            \* APPEND Box (\Recent \Seen)
    [] Profile = "t" ->
       { <<"INBOX", {"D", "K"}, 2>>, <<"Box", {"R", "S"}, 0>>, <<"INBOX", {}, 0>>,
         <<"Box", {"F", "K"}, 1>> }
    [] OTHER -> Boxes \X {{}, {"S"}, {"D", "F"}, {"K"}, {"K", "A", "T"}, {"R", "S"}} \X (0..2)

SelectMenu == Boxes

OtherFlagArgs == {F \in FlagArgsFull : "R" \notin F}
OtherStoreMenu ==
  CASE Profile = "q" ->
       { <<SR(2, 0), "remove", {"D", "S"}>>,                   \* o: UID STORE 2:* -FLAGS (\Deleted \Seen)
         <<S1(1), "add", {"D", "F"}>> }                        \* o: UID STORE 1 +FLAGS (\Deleted \Flagged)
    [] Profile = "t" ->
       { <<SR(2, 0), "remove", {"D", "S"}>>, <<S1(1), "add", {"D", "F"}>>,
         <<S2(<<4>>, <<1>>), "replace", {"A"}>>,               \* o: UID STORE 4,1 FLAGS (\Answered)
         <<SR(1, 0), "add", {"S", "K"}>> }                     \* o: UID STORE 1:* +FLAGS (\Seen kw)
    [] OTHER -> {<<e>> : e \in ElemsSmall \cup {<<1, 0>>}} \X Ops \X OtherFlagArgs

OtherAppendMenu ==
  CASE Profile = "q" -> { <<"INBOX", {"S"}, 0>> }              \* o: APPEND INBOX (\Seen)
    [] Profile = "t" -> { <<"INBOX", {"S"}, 0>>, <<"Box", {"D", "K"}, 2>> }
    [] OTHER -> Boxes \X {{}, {"S"}, {"D", "F"}, {"K"}} \X {0, 2}

OtherKinds == {"ostore", "oappend", "oexpunge"}
Kinds == {"store", "fetch", "expunge", "uidexpunge", "copy", "move", "append", "close", "select"}
           \cup OtherKinds
KindEnabled(k) ==
  CASE k \in {"select"} -> TRUE
    [] k = "append"     -> \E b \in Boxes : nextuid[b] <= MaxUid
    [] k = "oappend"    -> OtherOK /\ \E b \in Boxes : nextuid[b] <= MaxUid
    [] k \in OtherKinds -> OtherOK /\ sel # "none"
    [] OTHER            -> sel # "none"

Pick(k) ==
  /\ TwoLevel /\ turn = "pick" /\ ncmd < MaxCmds /\ KindEnabled(k)
  /\ turn' = k /\ UNCHANGED <<mb, nextuid, nextcid, sel, last, ncmd>>

Next ==
  \/ \E k \in Kinds : Pick(k)
  \/ \E c \in StoreMenu : Store(c[1], c[2], c[3], c[4], c[5])
  \/ \E c \in FetchMenu : Fetch(c[1], c[2], c[3])
  \/ Expunge
  \/ \E s \in UidExpungeMenu : UidExpunge(s)
  \/ \E c \in CopyMenu : Copy(c[1], c[2], c[3])
  \/ \E c \in MoveMenu : Move(c[1], c[2], c[3])
  \/ \E c \in AppendMenu : AppendMsg(c[1], c[2], c[3])
  \/ Close
  \/ \E b \in SelectMenu : Select(b)
  \/ \E c \in OtherStoreMenu : OtherStore(c[1], c[2], c[3])
  \/ \E c \in OtherAppendMenu : OtherAppend(c[1], c[2], c[3])
  \/ OtherExpunge

---------------------------------------------------------------------------
StdInbox == (1 :> Msg({}, 1, 1)) @@ (2 :> Msg({"D"}, 2, 2)) @@ (4 :> Msg({"S", "F"}, 1, 4))
StdBox   == (1 :> Msg({"F"}, 2, 5))

Init ==
  /\ \E i \in Inits :
       /\ mb = [b \in Boxes |-> IF b = "Box" THEN StdBox
                                ELSE IF i = "std" THEN StdInbox ELSE <<>>]
       /\ nextuid = [b \in Boxes |-> IF b = "Box" THEN 2 ELSE IF i = "std" THEN 5 ELSE 1]
  /\ nextcid = 6
  /\ sel = "INBOX"
  /\ last = NoRes
  /\ ncmd = 0
  /\ turn = IF TwoLevel THEN "pick" ELSE "any"

Spec == Init /\ [][Next]_vars

---------------------------------------------------------------------------
(* Internal sanity of the reference model (checked by TLC).                *)

\* a step that executes a command (a Pick step of the two-level menu does not)
IsCmd == ncmd' = ncmd + 1

AllFlags == Sys \cup {"K"}
TypeOK ==
  /\ \A b \in Boxes : /\ DOMAIN mb[b] \subseteq 1..MaxUid
                      /\ \A u \in DOMAIN mb[b] : /\ mb[b][u].f \subseteq AllFlags
                                                 /\ mb[b][u].d \in 0..2
                                                 /\ mb[b][u].c \in 1..(nextcid - 1)
  /\ sel \in Boxes \cup {"none"}
  /\ last.cond \in {"OK", "REFUSED"}
  /\ last.cmd \in Kinds \cup {"init"}

\* every UID in use is below UIDNEXT
UidsBelowNext == \A b \in Boxes : \A u \in DOMAIN mb[b] : u < nextuid[b]

\* \Recent is never stored; a keyword the mailbox does not permit can only have
\* come from an APPEND that kept it (L3) or a copy of such a message
NoRecentStored == \A b \in Boxes : \A u \in DOMAIN mb[b] : "R" \notin mb[b][u].f
KwOnlyIfAllowed == (~KwPermitted /\ "keep" \notin AppendKw) =>
                      \A b \in Boxes : \A u \in DOMAIN mb[b] : "K" \notin mb[b][u].f

\* copies share date with their original: a content id determines the date
ContentHasOneDate ==
  \A b1, b2 \in Boxes : \A u1 \in DOMAIN mb[b1], u2 \in DOMAIN mb[b2] :
     mb[b1][u1].c = mb[b2][u2].c => mb[b1][u1].d = mb[b2][u2].d

\* UIDs are assigned in strictly ascending order and never reused
UidsAscend ==
  [][\A b \in Boxes : /\ nextuid'[b] >= nextuid[b]
                      /\ \A u \in (DOMAIN mb'[b]) \ (DOMAIN mb[b]) : u >= nextuid[b] /\ u < nextuid'[b]]_vars

\* a refused command changes nothing
RefusedInert == [][(IsCmd /\ last'.cond = "REFUSED") => UNCHANGED <<mb, nextuid, nextcid, sel>>]_vars

\* MOVE == COPY ; STORE +FLAGS (\Deleted) on the same messages ; UID EXPUNGE of exactly those
MoveIsCopyStoreExpunge ==
  [][(IsCmd /\ last'.cmd = "move" /\ last'.cond = "OK") =>
       LET A == last'.addr
           w1 == WCopy(W, sel, A, last'.dest)
           w2 == WStore(w1, sel, A, "add", {"D"})
           w3 == WExpunge(w2, sel, DeletedIn(w2.mb[sel], A))
       IN mb' = w3.mb /\ nextuid' = w3.nu /\ last'.expunged = A]_vars

\* after EXPUNGE (by either session) no \Deleted message is left, and only \Deleted ones were removed;
\* UID EXPUNGE removes nothing outside its set
ExpungeExact ==
  [][/\ ((IsCmd /\ last'.cmd \in {"expunge", "oexpunge"}) => /\ DeletedIn(mb'[sel], DOMAIN mb'[sel]) = {}
                                  /\ \A u \in (DOMAIN mb[sel]) \ DOMAIN mb'[sel] : "D" \in mb[sel][u].f)
     /\ ((IsCmd /\ last'.cmd = "uidexpunge") =>
             /\ (DOMAIN mb[sel]) \ (DOMAIN mb'[sel]) \subseteq last'.addr
             /\ \A u \in (DOMAIN mb[sel]) \ DOMAIN mb'[sel] : "D" \in mb[sel][u].f
             /\ DeletedIn(mb'[sel], last'.addr) = {})]_vars

\* FETCH with .PEEK, COPY and SELECT do not change any flag of an existing message;
\* a non-PEEK FETCH adds \Seen to exactly the addressed messages
FetchSeenExact ==
  [][(IsCmd /\ last'.cmd = "fetch" /\ last'.cond = "OK") =>
        \A u \in DOMAIN mb[sel] :
           \/ mb'[sel][u] = mb[sel][u]
           \/ u \in last'.addr /\ mb'[sel][u] = [mb[sel][u] EXCEPT !.f = @ \cup {"S"}]]_vars

\* STORE (by either session) touches exactly the addressed messages, and only permitted flags
StoreExact ==
  [][(IsCmd /\ last'.cmd \in {"store", "ostore"} /\ last'.cond = "OK") =>
        /\ DOMAIN mb'[sel] = DOMAIN mb[sel]
        /\ \A u \in DOMAIN mb[sel] :
             /\ u \notin last'.addr => mb'[sel][u] = mb[sel][u]
             /\ mb'[sel][u].d = mb[sel][u].d /\ mb'[sel][u].c = mb[sel][u].c
             /\ (mb'[sel][u].f \ mb[sel][u].f) \subseteq Permitted]_vars

\* a command of the other session does not change what the acting session has
\* selected, is never refused, and addresses only messages that exist
OtherLeavesSession ==
  [][(IsCmd /\ last'.cmd \in OtherKinds) =>
        /\ sel' = sel /\ last'.cond = "OK" /\ last'.fetch = {}
        /\ (last'.cmd # "oappend" => /\ last'.addr \cup last'.expunged \subseteq DOMAIN mb[sel]
                                     /\ nextuid' = nextuid /\ nextcid' = nextcid)]_vars
=============================================================================
