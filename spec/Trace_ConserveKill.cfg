SPECIFICATION Spec
CONSTRAINT Record
POSTCONDITION Post
CHECK_DEADLOCK FALSE
