----------------------------- MODULE WireString -----------------------------
(***************************************************************************)
(* C18: the string argument codec.  A VALUE is a sequence of byte classes; *)
(* Sp(v) is the set of its legal wire spellings by RFC 3501 section 9 (+    *)
(* LITERAL+ RFC 7888, literal8 RFC 3516); the parsers of pymap are          *)
(* transcribed over sequences of wire tokens:                               *)
(*                                                                         *)
(*   parsing/specials/astring.py  AString.parse        -> PAString          *)
(*   parsing/primitives.py        String.parse         -> PString           *)
(*                                QuotedString.parse   -> PQuoted / QScan   *)
(*                                LiteralString.parse  -> PLiteral          *)
(*                                __bytes__ (cached _raw forms) -> .raw     *)
(*   imap/__init__.py             IMAPConnection.readline (LITERAL+ loop)   *)
(*                                                     -> FrameOK           *)
(*                                                                         *)
(* Value classes (read off the character tests of the atom patterns, the    *)
(* quoted-string scanner and String.build):                                 *)
(*   CH  atom-safe printable      SP space     DQ "     BS \                *)
(*   CR LF NUL  HI (8-bit)        CTL other control characters              *)
(*   LP ( or )   LB {   RC }   RB ]   WC % or *                             *)
(*   LPT the four bytes "{d+}" (what IMAPConnection.readline looks for at   *)
(*       the end of a line)                                                 *)
(* Wire tokens: the value classes, plus the literal headers HS "{n}CRLF",   *)
(* HP "{n+}CRLF", H8P "~{n+}CRLF" (n = byte length of the value, opaque),   *)
(* plus RP ")" in suffixes.                                                 *)
(*                                                                         *)
(* Not in the class model: the one length-dependent decision              *)
(* (LiteralString._check_too_big, 4096 bytes outside APPEND); the check     *)
(* probes it at the boundary (4096 / 4097 bytes, every spelling).           *)
(*                                                                         *)
(* Laws: every legal spelling followed by any suffix parses to <<v, suffix>>*)
(* (same value, consumes exactly its own bytes); the re-serialisation       *)
(* bytes(parse(x)) parses to <<v, empty>>; a command line whose last        *)
(* argument is the spelling is framed as one line.                          *)
(***************************************************************************)
EXTENDS Integers, Sequences, FiniteSets, TLC

CONSTANTS MaxLen, Fixed

VARIABLES v, pred

vars == <<v, pred>>

VC == {"CH", "SP", "DQ", "BS", "CR", "LF", "NUL", "HI", "CTL",
       "LP", "LB", "RC", "RB", "WC", "LPT"}

Kinds == {"atom", "quoted", "lit", "litplus", "lit8plus"}

AllDevs == {"AtomCloseBraceRejected", "QuotedRawStrayByte",
            "LiteralPlusTailReframed"}
DevsNone == {}

Suffixes == {<<"SP", "CH">>, <<"CR", "LF">>, <<"RP">>}

---------------------------------------------------------------------------
(* RFC 3501: which spellings a value has                                    *)

AStringChar(c) == c \in {"CH", "RB", "RC"}        \* ATOM-CHAR / resp-specials
QuotedChar(c)  == c \notin {"CR", "LF", "NUL", "HI"}   \* TEXT-CHAR, escaped DQ BS
Char8(c)       == c # "NUL"

Legal(val, k) ==
  CASE k = "atom"     -> val # <<>> /\ \A i \in 1..Len(val) : AStringChar(val[i])
    [] k = "quoted"   -> \A i \in 1..Len(val) : QuotedChar(val[i])
    [] k = "lit"      -> \A i \in 1..Len(val) : Char8(val[i])
    [] k = "litplus"  -> \A i \in 1..Len(val) : Char8(val[i])
    [] k = "lit8plus" -> TRUE

RECURSIVE Esc(_)
Esc(val) == IF val = <<>> THEN <<>>
            ELSE (IF Head(val) \in {"DQ", "BS"} THEN <<"BS", Head(val)>>
                  ELSE <<Head(val)>>) \o Esc(Tail(val))

Wire(val, k) ==
  CASE k = "atom"     -> val
    [] k = "quoted"   -> <<"DQ">> \o Esc(val) \o <<"DQ">>
    [] k = "lit"      -> <<"HS">> \o val
    [] k = "litplus"  -> <<"HP">> \o val
    [] k = "lit8plus" -> <<"H8P">> \o val

---------------------------------------------------------------------------
(* the parsers, as the code has them                                        *)

Fail == [ok |-> FALSE, val |-> <<>>, rest |-> <<>>, raw |-> <<>>]

\* Parseable._atom_pattern / AString._pattern: "}" (0x7D) is missing
PyAtomChar(c) == \/ c \in {"CH", "RB"}
                 \/ c = "RC" /\ "AtomCloseBraceRejected" \in Fixed

RECURSIVE AtomRun(_)
AtomRun(w) == IF w # <<>> /\ PyAtomChar(Head(w)) THEN 1 + AtomRun(Tail(w)) ELSE 0

\* QuotedString.parse: finditer over (?:\r|\n|\\.|\"); the cached raw form
\* is buf[start:end + 1], one byte beyond the closing quote
RECURSIVE QScan(_, _, _)
QScan(w, i, acc) ==
  IF i > Len(w) THEN Fail
  ELSE LET c == w[i] IN
    IF c \in {"CR", "LF"} THEN Fail
    ELSE IF c = "BS" THEN
      IF i + 1 > Len(w) THEN Fail
      ELSE IF w[i + 1] \in {"BS", "DQ"} THEN QScan(w, i + 2, acc \o <<w[i + 1]>>)
      ELSE Fail
    ELSE IF c = "DQ" THEN
      LET e == IF "QuotedRawStrayByte" \in Fixed THEN i
               ELSE (IF i + 1 <= Len(w) THEN i + 1 ELSE i)
      IN [ok |-> TRUE, val |-> acc, rest |-> SubSeq(w, i + 1, Len(w)),
          raw |-> SubSeq(w, 1, e)]
    ELSE QScan(w, i + 1, acc \o <<c>>)

PQuoted(w) == IF w # <<>> /\ Head(w) = "DQ" THEN QScan(w, 2, <<>>) ELSE Fail

\* LiteralString.parse: n bytes after the header (inline for {n+}, from the
\* continuation for {n}); the cached form is always the synchronising one
PLiteral(w, n) ==
  IF w # <<>> /\ Head(w) \in {"HS", "HP", "H8P"} /\ Len(w) - 1 >= n
  THEN [ok |-> TRUE, val |-> SubSeq(w, 2, n + 1), rest |-> SubSeq(w, n + 2, Len(w)),
        raw |-> <<IF Head(w) = "H8P" THEN "H8S" ELSE "HS">> \o SubSeq(w, 2, n + 1)]
  ELSE Fail

PString(w, n) == LET q == PQuoted(w) IN IF q.ok THEN q ELSE PLiteral(w, n)

PAString(w, n) ==
  LET k == AtomRun(w) IN
  IF k > 0 THEN [ok |-> TRUE, val |-> SubSeq(w, 1, k),
                 rest |-> SubSeq(w, k + 1, Len(w)), raw |-> SubSeq(w, 1, k)]
  ELSE PString(w, n)

\* re-parsing a cached raw form: H8S/HS headers are read like HP here (the
\* payload is at hand)
ReHdr(w) == IF w # <<>> /\ Head(w) \in {"HS", "H8S"}
            THEN <<IF Head(w) = "HS" THEN "HP" ELSE "H8P">> \o Tail(w) ELSE w

\* IMAPConnection.readline: after an inline literal and the rest of the line,
\* a buffer that again ends in "+}" CRLF is taken for one more literal
FrameOK(val, k) ==
  \/ "LiteralPlusTailReframed" \in Fixed
  \/ ~(k \in {"litplus", "lit8plus"} /\ val # <<>> /\ val[Len(val)] = "LPT")

---------------------------------------------------------------------------
(* what the as-is code is predicted to do with each legal spelling          *)

\* literal8 is legal only where a `string` is read (APPEND data, BINARY), not
\* in astring position ("~" is an ATOM-CHAR)
P(w, n, k) == IF k = "lit8plus" THEN PString(w, n) ELSE PAString(w, n)

ParsesTo(val, k, suf) ==
  LET r == P(Wire(val, k) \o suf, Len(val), k)
  IN r.ok /\ r.val = val /\ r.rest = suf

ReparseOK(val, k, suf) ==
  LET r == P(Wire(val, k) \o suf, Len(val), k)
      r2 == P(ReHdr(r.raw), Len(val), k)
  IN r.ok /\ r2.ok /\ r2.val = val /\ r2.rest = <<>>

Outcome(val, k) ==
  [legal |-> Legal(val, k),
   parse |-> \A suf \in Suffixes : ParsesTo(val, k, suf),
   reparse |-> \A suf \in Suffixes : ReparseOK(val, k, suf),
   frame |-> FrameOK(val, k)]

Pred(val) == [k \in Kinds |-> Outcome(val, k)]

Init == v = <<>> /\ pred = Pred(<<>>)

Extend(c) == /\ Len(v) < MaxLen
             /\ v' = v \o <<c>>
             /\ pred' = Pred(v')

Next == \E c \in VC : Extend(c)

Spec == Init /\ [][Next]_vars

---------------------------------------------------------------------------
TypeOK == v \in Seq(VC) /\ Len(v) <= MaxLen

\* Ideal configuration (Fixed = AllDevs)
SpellingLaw == \A k \in Kinds : pred[k].legal => pred[k].parse
ReserialiseLaw == \A k \in Kinds : pred[k].legal => pred[k].reparse
FramingLaw == \A k \in Kinds : pred[k].legal => pred[k].frame

\* As-is configuration: a law fails exactly under its named deviation
HasRC == \E i \in 1..Len(v) : v[i] = "RC"
OnlyKnown ==
  \A k \in Kinds : pred[k].legal =>
    /\ ~pred[k].parse => k = "atom" /\ HasRC
    /\ (pred[k].parse /\ ~pred[k].reparse) => k = "quoted"
    /\ ~pred[k].frame => k \in {"litplus", "lit8plus"} /\ v[Len(v)] = "LPT"
KnownDeviates ==
  /\ ("AtomCloseBraceRejected" \notin Fixed /\ pred["atom"].legal /\ HasRC)
       => ~pred["atom"].parse
  /\ ("QuotedRawStrayByte" \notin Fixed /\ pred["quoted"].legal)
       => ~pred["quoted"].reparse
=============================================================================
