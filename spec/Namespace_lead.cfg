\* names with a leading hierarchy delimiter
SPECIFICATION SpecAsIs
CONSTANTS
  CreateArgs = {}
  NameArgs = {}
  AppendArgs = {}
  SubArgs = {}
  RenameArgs = {}
  ListQ <- LeadQ
  LsubQ <- LeadQ
  InitSets <- LeadInit
  MaxMsgs = 1
  MaxLen = 4
  Dev <- AllDev
  Store = "dict"
INVARIANT TypeOK
CHECK_DEADLOCK FALSE
