\* names with a leading hierarchy delimiter
SPECIFICATION SpecAsIs
CONSTANTS
  CreateArgs = {}
  NameArgs = {}
  AppendArgs = {}
  SubArgs = {}
  RenameArgs = {}
  ListQ <- LeadQ
  LsubQ <- LeadQ
  InitSets <- LeadInit
  MaxMsgs = 1
  MaxLen = 4
  AllOpen <- AllKnown
  Stores = {"dict", "pp"}
INVARIANT TypeOK
CHECK_DEADLOCK FALSE
