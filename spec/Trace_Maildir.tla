--------------------------- MODULE Trace_Maildir ---------------------------
(***************************************************************************)
(* Observer for C15 (and the maildir half of C04).  One trace = one run of  *)
(* the REAL maildir backend in a child process that was killed immediately  *)
(* before filesystem operation k (k = -1: clean stop), followed by a NEW    *)
(* backend instance on the same directory that was asked to dump            *)
(* everything.  Events, in order:                                           *)
(*                                                                          *)
(*   ack      a command of the history was answered with a tagged OK (taken *)
(*            from the output stream the child logged write by write):      *)
(*            append (APPENDUID), copy / move (COPYUID), store, expunge,    *)
(*            create, rename, sub, unsub                                    *)
(*   inflight the command that had been sent but not answered when the      *)
(*            process died                                                  *)
(*   hungup   the server ended the connection instead of answering          *)
(*   crash    the kill: between which two filesystem operations             *)
(*   restart  control files as parsed directly from the directory (not by   *)
(*            pymap) + number of stale lock files aged past their expiry    *)
(*   served   every command of the post-restart dump and how it was         *)
(*            answered                                                      *)
(*   dump     LIST, LSUB, per folder UIDVALIDITY / UIDNEXT / every message  *)
(*            (uid, content id, flags) and the UID of one probe APPEND      *)
(*                                                                          *)
(* Clauses (= the clauses of the property).  The observer is total: it      *)
(* records the first clause that fails.                                     *)
(*   C15_AckedSurvive          every message acknowledged by APPEND / COPY  *)
(*                             / MOVE (and not acknowledged as expunged or  *)
(*                             moved away since) is served, same content,   *)
(*                             and - UIDVALIDITY unchanged - same UID       *)
(*   C15_AckedFlagsPersist     ... with the flags it had after the last     *)
(*                             acknowledged STORE                           *)
(*   C15_NoUidReuse            no (mailbox, validity, uid) ever denotes two *)
(*                             different contents, across all pre-crash     *)
(*                             acknowledgements, the dump and the probe; a  *)
(*                             UID acknowledged as expunged / moved away    *)
(*                             does not come back; every new binding is     *)
(*                             above all earlier ones (C04, maildir half)   *)
(*   C15_AckedSameUid          a message that is still served is served     *)
(*                             under the UID it was acknowledged with: no   *)
(*                             message appears under a never-given UID in a *)
(*                             folder of known UIDVALIDITY unless a         *)
(*                             delivery into it was in flight               *)
(*   C15_ControlFilesReadable  every control file parses and the restarted  *)
(*                             server answers every dump command with OK,   *)
(*                             without BYE / SERVERBUG                      *)
(*   C15_AckedCreatesPersist, C15_AckedSubscriptionsPersist                 *)
(* The command in flight at the kill relaxes exactly what it was about to   *)
(* change: a STORE may or may not have happened, a MOVE leaves the message  *)
(* in the source or the destination, an EXPUNGE may have removed \Deleted   *)
(* messages, a RENAME may have renamed each folder or not.                  *)
(*                                                                          *)
(* Named deviations of the tree as it is are tolerated ONLY when they are   *)
(* OPEN known findings (Data.known), and then everything else is still      *)
(* checked; which ones a trace needed is reported (used).                   *)
(***************************************************************************)
EXTENDS Naturals, Sequences, FiniteSets, TLC, Json, IOUtils

Data == JsonDeserialize(IOEnv.TRACE_FILE)
Traces == Data.traces
Known == {Data.known[i] : i \in DOMAIN Data.known}
N == Len(Traces)
ASSUME \A i \in 1..N : TLCSet(i, <<0, "", {}>>)

VARIABLES tid, l,
          acked,    \* [f, v, uid, c, fl, cp]: acknowledged messages (cp: descends from a COPY)
          subs, unsubs, created,
          seen,     \* <<f, v, uid, c, cp>>: every binding of a UID the client was told about
          gone,     \* <<f, v, uid, how>>: bindings acknowledged as removed ("expunge" / "move")
          infl,     \* <<>> or <<the inflight event>>
          used, bad
vars == <<tid, l, acked, subs, unsubs, created, seen, gone, infl, used, bad>>

ToSet(q) == {q[i] : i \in DOMAIN q}
Max(S) == IF S = {} THEN 0 ELSE CHOOSE x \in S : \A y \in S : y <= x
Apply(mode, cur, s) == IF mode = "add" THEN cur \cup s
                       ELSE IF mode = "del" THEN cur \ s ELSE s
Deleted == "\\Deleted"

Init == /\ tid \in 1..N /\ l = 1
        /\ acked = {} /\ subs = {} /\ unsubs = {} /\ created = {}
        /\ seen = {} /\ gone = {} /\ infl = <<>> /\ used = {} /\ bad = ""

Ev == Traces[tid][l]
Keep == UNCHANGED <<acked, subs, unsubs, created, seen, gone, infl, used, bad>>
Fail(c) == bad' = c /\ UNCHANGED <<acked, subs, unsubs, created, seen, gone, infl, used>>

SeenUids(S, f, v) == {x[3] : x \in {y \in S : y[1] = f /\ y[2] = v}}

-----------------------------------------------------------------------------
\* acknowledgements

NewBinding(f, v, uid) == uid > Max(SeenUids(seen, f, v))

AckAppend(ev) ==
  IF ev.uid = 0 THEN Keep
  ELSE IF ~NewBinding(ev.f, ev.v, ev.uid) THEN Fail("C15_NoUidReuse")
  ELSE /\ acked' = acked \cup {[f |-> ev.f, v |-> ev.v, uid |-> ev.uid, c |-> ev.c,
                                fl |-> ToSet(ev.fl), cp |-> FALSE]}
       /\ seen' = seen \cup {<<ev.f, ev.v, ev.uid, ev.c, FALSE>>}
       /\ UNCHANGED <<subs, unsubs, created, gone, infl, used, bad>>

Src(ev) == {a \in acked : a.f = ev.f /\ a.uid = ev.uid}

AckCopy(ev, move) ==
  IF Src(ev) = {} \/ ev.nuid = 0 THEN Keep
  ELSE IF ~NewBinding(ev.g, ev.v, ev.nuid) THEN Fail("C15_NoUidReuse")
  ELSE LET a == CHOOSE x \in Src(ev) : TRUE
           n == [f |-> ev.g, v |-> ev.v, uid |-> ev.nuid, c |-> a.c, fl |-> a.fl,
                 cp |-> (a.cp \/ ~move)]
       IN /\ acked' = (IF move THEN acked \ {a} ELSE acked) \cup {n}
          /\ seen' = seen \cup {<<n.f, n.v, n.uid, n.c, n.cp>>}
          /\ gone' = IF move THEN gone \cup {<<a.f, a.v, a.uid, "move">>} ELSE gone
          /\ UNCHANGED <<subs, unsubs, created, infl, used, bad>>

AckStore(ev) ==
  /\ acked' = {IF a.f = ev.f /\ a.uid = ev.uid
               THEN [a EXCEPT !.fl = Apply(ev.mode, @, ToSet(ev.fl))] ELSE a : a \in acked}
  /\ UNCHANGED <<subs, unsubs, created, seen, gone, infl, used, bad>>

AckExpunge(ev) ==
  LET del == {a \in acked : a.f = ev.f /\ Deleted \in a.fl}
  IN /\ acked' = acked \ del
     /\ gone' = gone \cup {<<a.f, a.v, a.uid, "expunge">> : a \in del}
     /\ UNCHANGED <<subs, unsubs, created, seen, infl, used, bad>>

Pairs(ev) == {<<ev.pairs[i][1], ev.pairs[i][2]>> : i \in DOMAIN ev.pairs}
Ren(P, f) == IF \E p \in P : p[1] = f THEN (CHOOSE p \in P : p[1] = f)[2] ELSE f

AckRename(ev) ==
  LET P == Pairs(ev)
  IN /\ acked' = {[a EXCEPT !.f = Ren(P, @)] : a \in acked}
     /\ seen' = {<<Ren(P, x[1]), x[2], x[3], x[4], x[5]>> : x \in seen}
     /\ gone' = {<<Ren(P, x[1]), x[2], x[3], x[4]>> : x \in gone}
     /\ created' = {Ren(P, f) : f \in created} \cup {p[2] : p \in {q \in P : q[1] \in created}}
     /\ UNCHANGED <<subs, unsubs, infl, used, bad>>

Ack(ev) ==
  CASE ev.op = "append"  -> AckAppend(ev)
    [] ev.op = "copy"    -> AckCopy(ev, FALSE)
    [] ev.op = "move"    -> AckCopy(ev, TRUE)
    [] ev.op = "store"   -> AckStore(ev)
    [] ev.op = "expunge" -> AckExpunge(ev)
    [] ev.op = "rename"  -> AckRename(ev)
    [] ev.op = "create"  -> /\ created' = created \cup {ev.f}
                            /\ UNCHANGED <<acked, subs, unsubs, seen, gone, infl, used, bad>>
    [] ev.op = "sub"     -> /\ subs' = subs \cup {ev.f} /\ unsubs' = unsubs \ {ev.f}
                            /\ UNCHANGED <<acked, created, seen, gone, infl, used, bad>>
    [] ev.op = "unsub"   -> /\ subs' = subs \ {ev.f} /\ unsubs' = unsubs \cup {ev.f}
                            /\ UNCHANGED <<acked, created, seen, gone, infl, used, bad>>
    [] OTHER             -> Keep

Inflight(ev) == /\ infl' = <<ev>>
                /\ UNCHANGED <<acked, subs, unsubs, created, seen, gone, used, bad>>

-----------------------------------------------------------------------------
\* after the restart

Restart(ev) ==
  IF \E i \in DOMAIN ev.ctl : ~ev.ctl[i].ok THEN Fail("C15_ControlFilesReadable") ELSE Keep

\* A dump command that was not answered OK carries the narrow signature of its cause when
\* the failing execution itself shows one (computed from the operation logs and the
\* directory, see maildir_crash.py); it is tolerated only if that is an OPEN known finding.
Served(ev) ==
  LET failed == {i \in DOMAIN ev.cmds : ~ev.cmds[i].ok}
  IN IF failed = {} THEN Keep
     ELSE IF \A i \in failed : ev.cmds[i].sig # "" /\ ev.cmds[i].sig \in Known
     THEN /\ used' = used \cup {ev.cmds[i].sig : i \in failed}
          /\ UNCHANGED <<acked, subs, unsubs, created, seen, gone, infl, bad>>
     ELSE Fail("C15_ControlFilesReadable")

HOLLOW == "MaildirCopyLosesContent"
MOVEBACK == "MaildirMoveBackDuplicate"

Dump(ev) ==
  LET F == ToSet(ev.folders)
      S == ToSet(ev.subs)
      B == ToSet(ev.boxes)
      I == IF infl = <<>> THEN [op |-> "none"] ELSE infl[1]
      \* a RENAME in flight: each folder was renamed or was not
      P == IF I.op = "rename" THEN {p \in Pairs(I) : p[2] \in F /\ p[1] \notin F} ELSE {}
      ackedE == {[a EXCEPT !.f = Ren(P, @)] : a \in acked}
      seenE == {<<Ren(P, x[1]), x[2], x[3], x[4], x[5]>> : x \in seen}
      goneE == {<<Ren(P, x[1]), x[2], x[3], x[4]>> : x \in gone}
      createdE == {Ren(P, f) : f \in created}
      HasBox(f) == \E b \in B : b.f = f
      Box(f) == CHOOSE b \in B : b.f = f
      Msgs(b) == ToSet(b.msgs)
      \* what the in-flight command relaxes (its folder names are pre-rename names and a
      \* rename is then not the command in flight)
      InflStore(a) == I.op = "store" /\ a.f = I.f /\ a.uid = I.uid
      InflMove(a) == I.op = "move" /\ a.f = I.f /\ a.uid = I.uid
      MayBeGone(a) == I.op = "expunge" /\ a.f = I.f /\ Deleted \in a.fl
      FlagsOK(a, m) == \/ ToSet(m.fl) = a.fl
                       \/ InflStore(a) /\ ToSet(m.fl) = Apply(I.mode, a.fl, ToSet(I.fl))
      Hollow(a, m) == a.cp /\ m.c = 0 /\ a.c # 0
      ContentOK(a, m) == m.c = a.c \/ (Hollow(a, m) /\ HOLLOW \in Known)
      \* candidates that can stand for acknowledged message a in folder f
      Cand(a, f, anyuid) ==
        IF ~HasBox(f) THEN {}
        ELSE {m \in Msgs(Box(f)) : /\ ContentOK(a, m)
                                   /\ (~anyuid /\ Box(f).v = a.v) => m.uid = a.uid}
      Found(a) == \/ a.f \in F /\ (~HasBox(a.f) \/ Cand(a, a.f, FALSE) # {})
                  \/ InflMove(a) /\ I.g \in F /\ (~HasBox(I.g) \/ Cand(a, I.g, TRUE) # {})
      FoundFlags(a) ==
                  \/ a.f \in F /\ (~HasBox(a.f) \/ \E m \in Cand(a, a.f, FALSE) : FlagsOK(a, m))
                  \/ InflMove(a) /\ I.g \in F
                     /\ (~HasBox(I.g) \/ \E m \in Cand(a, I.g, TRUE) : FlagsOK(a, m))
      lost == {a \in ackedE : ~MayBeGone(a) /\ ~Found(a)}
      flagless == {a \in ackedE : ~MayBeGone(a) /\ Found(a) /\ ~FoundFlags(a)}
      needHollow == \E a \in ackedE : ~MayBeGone(a) /\
                       \E f \in {a.f} \cup (IF InflMove(a) THEN {I.g} ELSE {}) :
                          HasBox(f) /\ \E m \in Msgs(Box(f)) : Hollow(a, m)
      \* UID bindings
      Bound(b, m) == {x \in seenE : x[1] = b.f /\ x[2] = b.v /\ x[3] = m.uid}
      Conflict(b, m) == \E x \in Bound(b, m) :
                            x[4] # m.c /\ ~(x[5] /\ m.c = 0 /\ HOLLOW \in Known)
      hollowBinding == \E b \in B : \E m \in Msgs(b) : \E x \in Bound(b, m) :
                            x[4] # m.c /\ x[5] /\ m.c = 0
      Back(b, m) == {g \in goneE : g[1] = b.f /\ g[2] = b.v /\ g[3] = m.uid}
      \* a moved-out UID that is served again with the message it always denoted
      MoveBack(b, m) == /\ \A g \in Back(b, m) : g[4] = "move"
                        /\ \A x \in Bound(b, m) : x[4] = m.c \/ (x[5] /\ m.c = 0)
      Resurrected(b, m) == Back(b, m) # {} /\ ~(MoveBack(b, m) /\ MOVEBACK \in Known)
      needMoveBack == \E b \in B : \E m \in Msgs(b) : Back(b, m) # {} /\ MoveBack(b, m)
      NotAbove(b, m) == Bound(b, m) = {} /\ m.uid <= Max(SeenUids(seenE, b.f, b.v))
      Twice(b) == \E m1, m2 \in Msgs(b) : m1 # m2 /\ m1.uid = m2.uid
      AllUids(b) == SeenUids(seenE, b.f, b.v) \cup {m.uid : m \in Msgs(b)}
      NextLow(b) == b.next # 0 /\ b.next <= Max(AllUids(b))
      ProbeLow(b) == \E i \in DOMAIN b.probe :
                        b.probe[i].v = b.v /\ (\/ b.probe[i].uid <= Max(AllUids(b))
                                               \/ (b.next # 0 /\ b.probe[i].uid < b.next))
      \* Messages come from deliveries only.  A message under a UID that was never given out
      \* (not acknowledged, not seen before) in a folder whose UIDVALIDITY is a known one, while
      \* no delivery into that folder was in flight, is an old message under a NEW UID: e.g. an
      \* EXPUNGE killed after it dropped the records and before it removed the files.
      DeliversInto(f) == \/ I.op = "append" /\ I.f = f
                         \/ I.op \in {"copy", "move"} /\ I.g = f
      KnownV(b) == \E x \in seenE : x[1] = b.f /\ x[2] = b.v
      Stranger(b, m) == Bound(b, m) = {} /\ KnownV(b) /\ ~DeliversInto(b.f)
      stranger == \E b \in B : \E m \in Msgs(b) : Stranger(b, m)
      reuse == \E b \in B : \/ Twice(b) \/ NextLow(b) \/ ProbeLow(b)
                            \/ \E m \in Msgs(b) : Conflict(b, m) \/ Resurrected(b, m) \/ NotAbove(b, m)
      nocreate == ev.listed /\ ~(createdE \subseteq F)
      InflSub(s) == I.op \in {"sub", "unsub"} /\ I.f = s
      nosub == ev.lsubbed /\ (\/ \E s \in subs : s \in F /\ s \notin S /\ ~InflSub(s)
                              \/ \E s \in unsubs : s # "INBOX" /\ s \in S /\ ~InflSub(s))
      tolerated == (IF (needHollow \/ hollowBinding) /\ HOLLOW \in Known THEN {HOLLOW} ELSE {})
                   \cup (IF needMoveBack /\ MOVEBACK \in Known THEN {MOVEBACK} ELSE {})
  IN IF ~ev.listed THEN Keep          \* LIST itself failed: already judged by `served`
     ELSE IF lost # {} THEN Fail("C15_AckedSurvive")
     ELSE IF flagless # {} THEN Fail("C15_AckedFlagsPersist")
     ELSE IF reuse THEN Fail("C15_NoUidReuse")
     ELSE IF stranger THEN Fail("C15_AckedSameUid")
     ELSE IF nocreate THEN Fail("C15_AckedCreatesPersist")
     ELSE IF nosub THEN Fail("C15_AckedSubscriptionsPersist")
     ELSE /\ used' = used \cup tolerated
          /\ UNCHANGED <<acked, subs, unsubs, created, seen, gone, infl, bad>>

Next == /\ l <= Len(Traces[tid]) /\ bad = ""
        /\ CASE Ev.e = "ack"      -> Ack(Ev)
             [] Ev.e = "inflight" -> Inflight(Ev)
             [] Ev.e = "restart"  -> Restart(Ev)
             [] Ev.e = "served"   -> Served(Ev)
             [] Ev.e = "dump"     -> Dump(Ev)
             [] OTHER             -> Keep        \* hungup, crash: marks
        /\ l' = l + 1 /\ tid' = tid

Spec == Init /\ [][Next]_vars
Record == IF TLCGet(tid)[2] = "" /\ (bad # "" \/ used # TLCGet(tid)[3])
          THEN TLCSet(tid, <<IF bad # "" THEN l - 1 ELSE 0, bad, used>>) ELSE TRUE
Post == \A i \in 1..N : PrintT(<<"VERDICT", i, TLCGet(i)[1], TLCGet(i)[2], TLCGet(i)[3]>>)
=============================================================================
