----------------------------- MODULE Trace_C09 -----------------------------
(***************************************************************************)
(* Observer for C09 over recorded executions of one connection: the        *)
(* clauses of Conn.tla (AuthClauses, AuthSound, NoProofNoAuth,             *)
(* IdentityOnlyByAuth) evaluated by TLC on what was PRESENTED and what was *)
(* OBSERVED, without Conn's prediction of the server's choice.  It is the  *)
(* judge of the executions for which Conn has no abstract input (the       *)
(* maildir-specific histories of c09.py: names that are nobody's in the    *)
(* users file, users without a stored secret, ...) and a second judge of   *)
(* every execution that was walked alongside the state graph.              *)
(*                                                                         *)
(* Events (JSON, one trace = one connection):                              *)
(*   init  svc, tls, stls, mechs      what the greeting / CAPABILITY show  *)
(*   auth  f, k, c, z                 one complete authentication exchange *)
(*         f  form (LOGIN / PLAIN / LOGINMECH / PLAINIR)                  *)
(*         k  "right" iff the name presented is EXACTLY the name of an     *)
(*            existing user and the secret presented is that user's        *)
(*            stored secret (decided by the driver from the table it       *)
(*            provisioned the store with); any other value: it is not      *)
(*         c  that user ("-": the name presented is nobody's)              *)
(*         z  the authorization identity requested ("-": none; a string    *)
(*            outside Users: nobody's name)                                *)
(*   cmd   c                          any other input                      *)
(*   both carry what was observed afterwards:                              *)
(*         last, closed               result class, connection closed      *)
(*         auth   "-" (a LIST / LISTSCRIPTS is refused), the user whose    *)
(*                marker mailbox / script is shown, or "?..." (something   *)
(*                else is shown)                                           *)
(*         tls, stls, mseen, mechs    advertised afterwards (mseen FALSE:  *)
(*                not advertised any more - authenticated or closed)       *)
(*         changed                    the store differs from before        *)
(*                                                                         *)
(* Clauses (the first one that fails is the verdict of the trace):         *)
(*   DRIFT_InitialState      the greeting matches no initial state of Conn *)
(*                           (the trace is not judged; counted as drift)   *)
(*   C09_LoginDisabled       Conn!LoginDisabled                            *)
(*   C09_ActsAs              Conn!ActsAs                                   *)
(*   C09_FailedAuthNoEffect  Conn!FailedAuthNoEffect                       *)
(*   C09_AuthSound           Conn!AuthSound /\ Conn!NoProofNoAuth after    *)
(*                           the step                                      *)
(*   C09_IdentityOnlyByAuth  no other input changes the identity (but      *)
(*                           UNAUTHENTICATE, to nobody)                    *)
(***************************************************************************)
EXTENDS Conn, Sequences, Json, IOUtils

Traces == JsonDeserialize(IOEnv.TRACE_FILE).traces
N == Len(Traces)
ASSUME \A i \in 1..N : TLCSet(i, <<0, "">>)

VARIABLES tid, l, bad
tvars == <<vars, tid, l, bad>>

SeqToSet(s) == {s[i] : i \in 1..Len(s)}
Ev == Traces[tid][l]

TInit ==
  /\ tid \in 1..N /\ l = 2
  /\ LET e0 == Traces[tid][1] IN
       /\ auth = None /\ proof = None /\ sel = NoSel /\ closed = FALSE
       /\ tls = e0.tls /\ stls = e0.stls /\ mechs = SeqToSet(e0.mechs)
       /\ boxes = {} /\ fl = FALSE /\ grew = FALSE /\ nbad = 0 /\ last = "INIT"
  \* Conn!Init read as a predicate on the state just bound (what a server advertises before
  \* anything was sent is not a clause of C09: reported as drift, not as a violation)
  /\ bad = IF Init THEN "" ELSE "DRIFT_InitialState"

Accepted(ev) == ev.last \in {"OK", "+OK"} /\ ~ev.closed

\* the primed variables of Conn as observed (`grew` stands for "the store differs": the
\* clauses only ask whether datav is UNCHANGED)
Observed(ev) ==
  /\ auth' = ev.auth /\ last' = ev.last /\ closed' = ev.closed
  /\ tls' = ev.tls /\ stls' = ev.stls
  /\ mechs' = IF ev.mseen THEN SeqToSet(ev.mechs) ELSE mechs
  /\ grew' = (grew # ev.changed)
  /\ UNCHANGED <<sel, boxes, fl, nbad>>

FirstFailed(cl) ==
  IF \A i \in 1..Len(cl) : cl[i][2] THEN ""
  ELSE cl[CHOOSE i \in 1..Len(cl) : ~cl[i][2] /\ \A j \in 1..(i - 1) : cl[j][2]][1]

Sound == AuthSound /\ NoProofNoAuth

AuthStep(ev) ==
  LET f  == ev.f
      cr == [k |-> ev.k, c |-> ev.c, z |-> ev.z]
  IN /\ Observed(ev)
     \* whose credentials the connection's identity rests on: the verified user's, if
     \* the exchange was accepted
     /\ proof' = IF Accepted(ev) THEN (IF Verified(cr) THEN cr.c ELSE None)
                 ELSE IF ev.auth = None THEN None ELSE proof
     /\ bad' = FirstFailed(<< <<"C09_LoginDisabled",      LoginDisabled(f, cr)>>,
                              <<"C09_ActsAs",             ActsAs(f, cr)>>,
                              <<"C09_FailedAuthNoEffect", FailedAuthNoEffect(f, cr)>>,
                              <<"C09_AuthSound",          Sound'>> >>)

CmdStep(ev) ==
  /\ Observed(ev)
  /\ proof' = IF ev.auth = None THEN None ELSE proof
  /\ bad' = FirstFailed(<< <<"C09_IdentityOnlyByAuth",
                             auth' # auth => (ev.c = "UNAUTHENTICATE" /\ auth' = None)>>,
                           <<"C09_AuthSound", Sound'>> >>)

TNext ==
  /\ l <= Len(Traces[tid]) /\ bad = ""
  /\ IF Ev.e = "auth" THEN AuthStep(Ev) ELSE CmdStep(Ev)
  /\ l' = l + 1 /\ tid' = tid

TSpec == TInit /\ [][TNext]_tvars

Record == IF bad # "" /\ TLCGet(tid)[2] = "" THEN TLCSet(tid, <<l - 1, bad>>) ELSE TRUE
Post == \A i \in 1..N : PrintT(<<"VERDICT", i, TLCGet(i)[1], TLCGet(i)[2]>>)
=============================================================================
