---------------------------- MODULE Trace_Recent ----------------------------
(***************************************************************************)
(* Observer for C17 (\Recent) over the same recorded events as Trace_Sync. *)
(* It follows each client's view (positions -> UID, taken over from the    *)
(* glass-box view at every tagged response) and what each client has been  *)
(* shown, and checks the clauses of the property:                          *)
(*                                                                         *)
(*  C17_AtMostOneRW     a message is shown \Recent to at most one          *)
(*                      read-write selection over its lifetime             *)
(*  C17_FirstRWGetsIt   a message that arrived while no read-write         *)
(*                      selection of its mailbox existed (read-only ones   *)
(*                      do not count: they never consume it) is shown      *)
(*                      \Recent to the first read-write selection made     *)
(*                      afterwards                                         *)
(*  C17_CountAgrees     after a complete FETCH 1:* (FLAGS) of a read-write *)
(*                      selection the number of messages it sees flagged   *)
(*                      \Recent equals the last RECENT count it was given  *)
(*  C17_StoreKeepsRecent  a FETCH received while the session's own STORE   *)
(*                      is in flight never changes a message's \Recent     *)
(*                      (ev.gone: the message has left the store - nothing  *)
(*                      is demanded of what is said about a ghost)          *)
(***************************************************************************)
EXTENDS Naturals, Sequences, FiniteSets, TLC, Json, IOUtils

Traces == JsonDeserialize(IOEnv.TRACE_FILE).traces
N == Len(Traces)
Sess == {"a", "b", "c", "d"}

ASSUME \A i \in 1..N : TLCSet(i, <<0, "">>)

VARIABLES tid, l,
          cv,      \* cv[s]: positions -> uid (0 unknown)
          cr,      \* cr[s]: positions -> "y" | "n" | "?"  (\Recent as last told)
          mb,      \* mb[s]: selected mailbox name, "" = none
          rw,      \* rw[s]: selection is read-write
          sid,     \* sid[s]: identity of the current selection
          nextid,
          rcnt,    \* rcnt[s]: last RECENT count given (SELECT or untagged)
          shown,   \* {<<mailbox, uid, selection id>>} shown \Recent in a read-write selection
          owed,    \* {<<mailbox, uid>>}: arrived while no read-write selection existed
          claim,   \* {<<mailbox, uid, selection id>>}: the first rw selection after arrival
          cmd,     \* cmd[s]: the command in flight (sequence) or <<>>
          pendsel, \* pendsel[s]: <<mailbox to be selected, the PREVIOUS selection's mailbox,
                   \*              the previous selection was read-write>> of a SELECT in flight
          bad
vars == <<tid, l, cv, cr, mb, rw, sid, nextid, rcnt, shown, owed, claim, cmd, pendsel, bad>>

ToSet(q) == {q[i] : i \in DOMAIN q}
RemoveAt(q, n) == [i \in 1..(Len(q) - 1) |-> IF i < n THEN q[i] ELSE q[i + 1]]
Fill(q, n, x) == [i \in 1..n |-> IF i <= Len(q) THEN q[i] ELSE x]

Init == /\ tid \in 1..N /\ l = 1
        /\ cv = [s \in Sess |-> <<>>] /\ cr = [s \in Sess |-> <<>>]
        /\ mb = [s \in Sess |-> ""] /\ rw = [s \in Sess |-> FALSE]
        /\ sid = [s \in Sess |-> 0] /\ nextid = 1
        /\ rcnt = [s \in Sess |-> 0]
        /\ shown = {} /\ owed = {} /\ claim = {}
        /\ cmd = [s \in Sess |-> <<>>]
        /\ pendsel = [s \in Sess |-> <<"", "", FALSE>>]
        /\ bad = ""

Ev == Traces[tid][l]
Keep(v) == UNCHANGED v
Fail(c) == bad' = c /\ UNCHANGED <<cv, cr, mb, rw, sid, nextid, rcnt, shown, owed, claim, cmd, pendsel>>

RwSelOf(m) == {s \in Sess : mb[s] = m /\ rw[s]}

Start(ev) ==
  /\ cmd' = [cmd EXCEPT ![ev.s] = ev.cmd]
  /\ IF ev.k = "select"
     THEN \* the old selection ends when SELECT/EXAMINE is received
          /\ mb' = [mb EXCEPT ![ev.s] = ""] /\ rw' = [rw EXCEPT ![ev.s] = FALSE]
          /\ cv' = [cv EXCEPT ![ev.s] = <<>>] /\ cr' = [cr EXCEPT ![ev.s] = <<>>]
          /\ pendsel' = [pendsel EXCEPT ![ev.s] = <<ev.cmd[2], mb[ev.s], rw[ev.s]>>]
     ELSE UNCHANGED <<mb, rw, cv, cr, pendsel>>
  /\ UNCHANGED <<sid, nextid, rcnt, shown, owed, claim, bad>>

Expunge(ev) ==
  /\ IF 1 <= ev.n /\ ev.n <= Len(cv[ev.s])
     THEN cv' = [cv EXCEPT ![ev.s] = RemoveAt(@, ev.n)] /\ cr' = [cr EXCEPT ![ev.s] = RemoveAt(@, ev.n)]
     ELSE UNCHANGED <<cv, cr>>      \* C01's business
  /\ UNCHANGED <<mb, rw, sid, nextid, rcnt, shown, owed, claim, cmd, pendsel, bad>>

Exists(ev) ==
  /\ IF ev.n >= Len(cv[ev.s])
     THEN cv' = [cv EXCEPT ![ev.s] = Fill(@, ev.n, 0)] /\ cr' = [cr EXCEPT ![ev.s] = Fill(@, ev.n, "?")]
     ELSE UNCHANGED <<cv, cr>>
  /\ UNCHANGED <<mb, rw, sid, nextid, rcnt, shown, owed, claim, cmd, pendsel, bad>>

Recent(ev) == /\ rcnt' = [rcnt EXCEPT ![ev.s] = ev.n]
              /\ UNCHANGED <<cv, cr, mb, rw, sid, nextid, shown, owed, claim, cmd, pendsel, bad>>

Fetch(ev) ==
  LET s == ev.s
      inr == 1 <= ev.n /\ ev.n <= Len(cv[s])
      u == IF ev.uid # 0 THEN ev.uid ELSE IF inr THEN cv[s][ev.n] ELSE 0
      isR == "\\Recent" \in ToSet(ev.flags)
      now == IF isR THEN "y" ELSE "n"
      ownStore == cmd[s] # <<>> /\ cmd[s][1] = "store"
  IN IF ~inr \/ ~ev.hasflags
     THEN UNCHANGED <<cv, cr, mb, rw, sid, nextid, rcnt, shown, owed, claim, cmd, pendsel, bad>>
     \* (not for a message that is no longer in the store - expunged by another session,
     \* this one not told yet: the session flags of a ghost are gone with it)
     ELSE IF ownStore /\ ~ev.gone /\ cr[s][ev.n] # "?" /\ cr[s][ev.n] # now THEN Fail("C17_StoreKeepsRecent")
     ELSE IF isR /\ rw[s] /\ u # 0 /\ mb[s] # ""
             /\ \E x \in shown : x[1] = mb[s] /\ x[2] = u /\ x[3] # sid[s]
          THEN Fail("C17_AtMostOneRW")
     ELSE /\ cr' = [cr EXCEPT ![s][ev.n] = now]
          /\ cv' = IF ev.uid # 0 THEN [cv EXCEPT ![s][ev.n] = ev.uid] ELSE cv
          /\ shown' = IF isR /\ rw[s] /\ u # 0 THEN shown \cup {<<mb[s], u, sid[s]>>} ELSE shown
          /\ UNCHANGED <<mb, rw, sid, nextid, rcnt, owed, claim, cmd, pendsel, bad>>

\* "validity uid[,uid...]" / "validity src dst": the harness logs the destination UIDs
Arrive(ev) ==
  LET m == ev.dest
      us == ToSet(ev.uids)
      \* a session that had m selected read-write and has sent SELECT/EXAMINE: the server
      \* may or may not have dropped the old selection yet -> nothing is demanded
      leaving == \E t \in Sess : cmd[t] # <<>> /\ cmd[t][1] \in {"select", "examine"}
                                  /\ pendsel[t][2] = m /\ pendsel[t][3]
      \* a SELECT/EXAMINE of m is in flight: it may already have done its claiming, so the
      \* arrival is concurrent with that selection -> nothing is demanded
      entering == \E t \in Sess : cmd[t] # <<>> /\ cmd[t][1] \in {"select", "examine"}
                                   /\ pendsel[t][1] = m
  IN /\ owed' = IF RwSelOf(m) = {} /\ ~leaving /\ ~entering /\ ~ev.claimed
                THEN owed \cup {<<m, u>> : u \in us} ELSE owed
     /\ UNCHANGED <<cv, cr, mb, rw, sid, nextid, rcnt, shown, claim, cmd, pendsel, bad>>

FullFetch(c) == Len(c) >= 3 /\ c[1] = "fetch" /\ c[2] = FALSE /\ c[3] = "1:*"

Tagged(ev) ==
  LET s == ev.s
      c == cmd[s]
      isSel == c # <<>> /\ c[1] \in {"select", "examine"}
  IN IF isSel
     THEN IF ev.cond = "OK" /\ ev.selected
          THEN LET m == pendsel[s][1]
                   w == ~ev.ro
                   mine == {o \in owed : o[1] = m}
               IN /\ mb' = [mb EXCEPT ![s] = m] /\ rw' = [rw EXCEPT ![s] = w]
                  /\ sid' = [sid EXCEPT ![s] = nextid] /\ nextid' = nextid + 1
                  /\ cv' = [cv EXCEPT ![s] = ev.view]
                  /\ cr' = [cr EXCEPT ![s] = [i \in 1..Len(ev.view) |-> "?"]]
                  \* a read-write selection becomes the claimer of everything owed --
                  \* unless another SELECT/EXAMINE of the same mailbox is in flight: then
                  \* either may have been first and nothing is demanded
                  /\ IF w THEN /\ owed' = owed \ mine
                               /\ claim' = IF \E t \in Sess \ {s} : cmd[t] # <<>>
                                                  /\ cmd[t][1] \in {"select", "examine"}
                                                  /\ pendsel[t][1] = m
                                            THEN claim
                                            ELSE claim \cup {<<o[1], o[2], nextid>> : o \in mine}
                     ELSE UNCHANGED <<owed, claim>>
                  /\ cmd' = [cmd EXCEPT ![s] = <<>>]
                  /\ UNCHANGED <<rcnt, shown, pendsel, bad>>
          ELSE /\ cmd' = [cmd EXCEPT ![s] = <<>>]
               /\ UNCHANGED <<cv, cr, mb, rw, sid, nextid, rcnt, shown, owed, claim, pendsel, bad>>
     ELSE IF ~ev.selected
     THEN /\ mb' = [mb EXCEPT ![s] = ""] /\ rw' = [rw EXCEPT ![s] = FALSE]
          /\ cv' = [cv EXCEPT ![s] = <<>>] /\ cr' = [cr EXCEPT ![s] = <<>>]
          /\ cmd' = [cmd EXCEPT ![s] = <<>>]
          /\ UNCHANGED <<sid, nextid, rcnt, shown, owed, claim, pendsel, bad>>
     ELSE IF ev.cond = "OK" /\ FullFetch(c) /\ rw[s] /\ Len(cv[s]) = Len(ev.view)
     THEN LET ys == {i \in 1..Len(cr[s]) : cr[s][i] = "y"}
              allKnown == \A i \in 1..Len(cr[s]) : cr[s][i] # "?"
              mustY == {i \in 1..Len(ev.view) : <<mb[s], ev.view[i], sid[s]>> \in claim}
          IN IF allKnown /\ \E i \in mustY : cr[s][i] # "y"
             THEN Fail("C17_FirstRWGetsIt:" \o ToString(ev.view[CHOOSE i \in mustY : cr[s][i] # "y"]))
             ELSE IF allKnown /\ Cardinality(ys) # rcnt[s] THEN Fail("C17_CountAgrees")
             ELSE LET mine == {<<mb[s], ev.view[i], sid[s]>> : i \in ys} IN
                  IF \E x \in mine : \E y \in shown : y[1] = x[1] /\ y[2] = x[2] /\ y[3] # x[3]
                  THEN Fail("C17_AtMostOneRW")
                  ELSE /\ cv' = [cv EXCEPT ![s] = ev.view] /\ cmd' = [cmd EXCEPT ![s] = <<>>]
                       /\ shown' = shown \cup mine
                       /\ UNCHANGED <<cr, mb, rw, sid, nextid, rcnt, owed, claim, pendsel, bad>>
     ELSE \* the view is known now (glass box): credit what was shown \Recent at positions
          \* whose UID the client had not been told (EXISTS + FETCH without UID)
          LET ok == Len(cv[s]) = Len(ev.view) /\ Len(cr[s]) = Len(ev.view)
              mine == IF ok /\ rw[s] /\ mb[s] # ""
                      THEN {<<mb[s], ev.view[i], sid[s]>> : i \in {j \in 1..Len(ev.view) : cr[s][j] = "y"}}
                      ELSE {}
          IN IF \E x \in mine : \E y \in shown : y[1] = x[1] /\ y[2] = x[2] /\ y[3] # x[3]
             THEN Fail("C17_AtMostOneRW")
             ELSE /\ cv' = IF ok THEN [cv EXCEPT ![s] = ev.view] ELSE cv
                  /\ shown' = shown \cup mine
                  /\ cmd' = [cmd EXCEPT ![s] = <<>>]
                  /\ UNCHANGED <<cr, mb, rw, sid, nextid, rcnt, owed, claim, pendsel, bad>>

\* the connection ended: so did its selection
Gone(ev) == /\ mb' = [mb EXCEPT ![ev.s] = ""] /\ rw' = [rw EXCEPT ![ev.s] = FALSE]
            /\ cv' = [cv EXCEPT ![ev.s] = <<>>] /\ cr' = [cr EXCEPT ![ev.s] = <<>>]
            /\ cmd' = [cmd EXCEPT ![ev.s] = <<>>]
            /\ UNCHANGED <<sid, nextid, rcnt, shown, owed, claim, pendsel, bad>>

Other == UNCHANGED <<cv, cr, mb, rw, sid, nextid, rcnt, shown, owed, claim, cmd, pendsel, bad>>

Handle(ev) ==
  CASE ev.e = "start"   -> Start(ev)
    [] ev.e = "expunge" -> Expunge(ev)
    [] ev.e = "exists"  -> Exists(ev)
    [] ev.e = "recent"  -> Recent(ev)
    [] ev.e = "fetch"   -> Fetch(ev)
    [] ev.e = "arrive"  -> Arrive(ev)
    [] ev.e = "tagged"  -> Tagged(ev)
    [] ev.e \in {"bye", "cancel", "drop"} -> Gone(ev)
    [] OTHER            -> Other

Next == /\ l <= Len(Traces[tid]) /\ bad = ""
        /\ Handle(Ev)
        /\ l' = l + 1 /\ tid' = tid

Spec == Init /\ [][Next]_vars

Record == IF bad # "" /\ TLCGet(tid)[2] = "" THEN TLCSet(tid, <<l - 1, bad>>) ELSE TRUE
Post == \A i \in 1..N : PrintT(<<"VERDICT", i, TLCGet(i)[1], TLCGet(i)[2]>>)
=============================================================================
