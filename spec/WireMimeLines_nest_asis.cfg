SPECIFICATION Spec
CONSTANTS
  MaxLines = 6
  Prefix <- PrefixNest
  Alphabet <- AlphaNest
  Fixed <- DevsNone
INVARIANT TypeOK
INVARIANT OnlyKnown
INVARIANT KnownDeviates
