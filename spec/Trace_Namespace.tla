-------------------------- MODULE Trace_Namespace --------------------------
(***************************************************************************)
(* code -> spec for C11: executions recorded from the REAL server are      *)
(* accepted iff every observed step is one of the outcomes Namespace.tla   *)
(* allows (RFC 3501 latitude included) in the state reached so far, and    *)
(* the probes taken after the step (LIST "" *, LSUB "" *, STATUS of every  *)
(* name of interest) are answers allowed in the state after it.            *)
(* One run judges the executions of ONE store (CONSTANT Store; Dev = the   *)
(* deviations known for that store).                                       *)
(* Outcomes of named deviations (Dev) are accepted too but recorded in     *)
(* `used`; the smallest `used` over all accepting runs is reported, the    *)
(* check turns each name in it into a known-finding signature.             *)
(*                                                                         *)
(* Event (JSON): op, a, b (names / reference+pattern as arrays of tokens), *)
(*   ok (tagged OK), bad (anything but OK/NO), bye (no tagged answer but    *)
(*   "* BYE" and the connection closed: only a deviation answers so),      *)
(*   n (messages, STATUS/SELECT),                                          *)
(*   ents (LIST/LSUB answer: [{n: name, ns: \Noselect}]),                  *)
(*   hp (probes present), pl, ps (probe answers), st ([{n, ok, m}]).       *)
(***************************************************************************)
EXTENDS Namespace, Json, IOUtils

Traces == JsonDeserialize(IOEnv.TRACE_FILE).traces
N == Len(Traces)

ASSUME \A k \in 1..N : TLCSet(k, 0) /\ TLCSet(N + k, {"-none-"})

VARIABLES tid, l, used
tvars == <<mbx, sub, last, probe, tid, l, used>>

Ev == Traces[tid][l]
ToSet(s) == {s[k] : k \in 1..Len(s)}

Outs(ev) ==
  CASE ev.op = "create"      -> CreateOutcomes(ev.a)
    [] ev.op = "delete"      -> DeleteOutcomes(ev.a)
    [] ev.op = "rename"      -> RenameOutcomes(ev.a, ev.b)
    [] ev.op = "subscribe"   -> SubscribeOutcomes(ev.a)
    [] ev.op = "unsubscribe" -> UnsubscribeOutcomes(ev.a)
    [] ev.op = "status"      -> QueryOutcomes(ev.a)
    [] ev.op = "select"      -> QueryOutcomes(ev.a)
    [] ev.op = "append"      -> AppendOutcomes(ev.a)
    [] ev.op = "list"        -> ListOutcomes(FALSE, ev.a, ev.b)
    [] ev.op = "lsub"        -> ListOutcomes(TRUE, ev.a, ev.b)

\* exactly the names that must be returned, at most those that may, the
\* \Noselect marking where the RFC fixes it
EntsOK(v, ents) ==
  LET names == {x.n : x \in ToSet(ents)} IN
  /\ v.must \subseteq names
  /\ names \subseteq v.must \cup v.may
  /\ v.one => Len(ents) = 1
  /\ \A x \in ToSet(ents) : (x.n \in v.nosel => x.ns) /\ (x.n \in v.sel => ~x.ns)

ObsOK(r, ev) ==
  /\ ev.bye = r.bye
  /\ ~r.bye => ~ev.bad
  /\ r.ok = ev.ok
  /\ (ev.op \in {"status", "select"} /\ r.ok) => r.n = ev.n
  /\ ev.op \in {"list", "lsub"} => EntsOK(r, ev.ents)

StatusOK(m, ev) ==
  \A x \in ToSet(ev.st) : /\ x.ok <=> x.n \in DOMAIN m
                          /\ x.ok => x.m = m[x.n]

NoProbe == {[dev |-> {}]}

TInit == /\ tid \in 1..N
         /\ l = 1
         /\ used = {}
         /\ mbx = [n \in {Inbox} |-> 0]
         /\ sub = {}
         /\ last = Null
         /\ probe = <<>>

TNext ==
  /\ l <= Len(Traces[tid])
  /\ \E o \in Outs(Ev) :
       /\ ObsOK(o.r, Ev)
       /\ \E vl \in (IF Ev.hp THEN ListVariants(o.m, o.s, FALSE, <<>>, <<"*">>) ELSE NoProbe),
             vs \in (IF Ev.hp THEN ListVariants(o.m, o.s, TRUE, <<>>, <<"*">>) ELSE NoProbe) :
            /\ Ev.hp => EntsOK(vl, Ev.pl) /\ EntsOK(vs, Ev.ps) /\ StatusOK(o.m, Ev)
            /\ used' = used \cup o.r.dev \cup vl.dev \cup vs.dev
       /\ mbx' = o.m /\ sub' = o.s
  /\ l' = l + 1 /\ tid' = tid
  /\ UNCHANGED <<last, probe>>

TSpec == TInit /\ [][TNext]_tvars

\* register tid: how many events were accepted; register N+tid: the smallest
\* set of deviations of a run that accepted the whole trace
Record ==
  /\ TLCSet(tid, IF TLCGet(tid) > l - 1 THEN TLCGet(tid) ELSE l - 1)
  /\ (l = Len(Traces[tid]) + 1) =>
        TLCSet(N + tid, IF TLCGet(N + tid) = {"-none-"}
                           \/ Cardinality(used) < Cardinality(TLCGet(N + tid))
                        THEN used ELSE TLCGet(N + tid))

Post == \A k \in 1..N : /\ PrintT(<<"VERDICT", k, TLCGet(k), Len(Traces[k])>>)
                        /\ PrintT(<<"USED", k, TLCGet(N + k)>>)
=============================================================================
