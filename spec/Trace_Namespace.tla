-------------------------- MODULE Trace_Namespace --------------------------
(***************************************************************************)
(* code -> spec for C11: executions recorded from the REAL server are      *)
(* accepted iff every observed step is one of the outcomes Namespace.tla   *)
(* allows (RFC 3501 latitude included) in the state reached so far, and    *)
(* the probes taken after the step (LIST "" *, LSUB "" *, STATUS of every  *)
(* name of interest) are answers allowed in the state after it.            *)
(* The store of an execution is the field `be` of its events; Dev is, as   *)
(* in Namespace.tla, the deviations known for that store (AllOpen = all).  *)
(* Outcomes of named deviations (Dev) are accepted too but recorded in     *)
(* `used`; the smallest `used` over all accepting runs is reported, the    *)
(* check turns each name in it into a known-finding signature.             *)
(*                                                                         *)
(* Event (JSON): be ("dict" | "pp" | "fs"),                                *)
(*   op, a, b (names / reference+pattern as arrays of tokens),             *)
(*   ok (tagged OK), bad (anything but OK/NO), bye (no tagged answer but    *)
(*   "* BYE" and the connection closed: only a deviation answers so),      *)
(*   n (messages, STATUS/SELECT),                                          *)
(*   ents (LIST/LSUB answer: [{n: name, ns: \Noselect}]),                  *)
(*   hp (probes present), pl, ps (probe answers), st ([{n, ok, m}]).       *)
(***************************************************************************)
EXTENDS Namespace, Json, IOUtils

Traces == JsonDeserialize(IOEnv.TRACE_FILE).traces
N == Len(Traces)

ASSUME \A k \in 1..N : TLCSet(k, 0) /\ TLCSet(N + k, {"-none-"})

VARIABLES tid, l, used
tvars == <<mbx, sub, last, probe, store, tid, l, used>>

Ev == Traces[tid][l]
ToSet(s) == {s[k] : k \in 1..Len(s)}

Outs(ev) ==
  CASE ev.op = "create"      -> CreateOutcomes(ev.a)
    [] ev.op = "delete"      -> DeleteOutcomes(ev.a)
    [] ev.op = "rename"      -> RenameOutcomes(ev.a, ev.b)
    [] ev.op = "subscribe"   -> SubscribeOutcomes(ev.a)
    [] ev.op = "unsubscribe" -> UnsubscribeOutcomes(ev.a)
    [] ev.op = "status"      -> QueryOutcomes(ev.a)
    [] ev.op = "select"      -> QueryOutcomes(ev.a)
    [] ev.op = "append"      -> AppendOutcomes(ev.a)
    [] ev.op = "list"        -> ListOutcomes(FALSE, ev.a, ev.b)
    [] ev.op = "lsub"        -> ListOutcomes(TRUE, ev.a, ev.b)

\* exactly the names that must be returned, at most those that may, the
\* \Noselect marking where the RFC fixes it
EntsOK(v, ents) ==
  LET names == {x.n : x \in ToSet(ents)} IN
  /\ v.must \subseteq names
  /\ names \subseteq v.must \cup v.may
  /\ v.one => Len(ents) = 1
  /\ \A x \in ToSet(ents) : (x.n \in v.nosel => x.ns) /\ (x.n \in v.sel => ~x.ns)

ObsOK(r, ev) ==
  /\ ev.bye = r.bye
  /\ ~r.bye => ~ev.bad
  /\ r.ok = ev.ok
  /\ (ev.op \in {"status", "select"} /\ r.ok) => r.n = ev.n
  /\ ev.op \in {"list", "lsub"} => EntsOK(r, ev.ents)

StatusOK(m, ev) ==
  \A x \in ToSet(ev.st) : /\ x.ok <=> x.n \in DOMAIN m
                          /\ x.ok => x.m = m[x.n]

NoProbe == {[dev |-> {}]}

TInit == /\ tid \in 1..N
         /\ l = 1
         /\ used = {}
         /\ store = Traces[tid][1].be
         /\ mbx = [n \in {Inbox} |-> 0]
         /\ sub = {}
         /\ last = Null
         /\ probe = <<>>

\* the explanations of an event: the state after it and the deviations needed
Cands(ev) ==
  UNION {LET vls == IF ev.hp
                    THEN {v \in ListVariants(o.m, o.s, FALSE, <<>>, <<"*">>) : EntsOK(v, ev.pl)}
                    ELSE NoProbe
             vss == IF ev.hp
                    THEN {v \in ListVariants(o.m, o.s, TRUE, <<>>, <<"*">>) : EntsOK(v, ev.ps)}
                    ELSE NoProbe
         IN {[m |-> o.m, s |-> o.s, ok |-> o.r.ok, d |-> o.r.dev \cup vl.dev \cup vs.dev]
             : vl \in vls, vs \in vss}
         : o \in {p \in Outs(ev) : ObsOK(p.r, ev) /\ (ev.hp => StatusOK(p.m, ev))}}
\* an explanation that needs more deviations than another one with the same
\* state after it cannot lead to a smaller `used`: not followed
Minimal(C) == {c \in C : ~\E e \in C : e.m = c.m /\ e.s = c.s /\ e.d \subseteq c.d /\ e.d # c.d}

\* It is ONE server that is observed: it either writes a subscribed name with
\* a line break as it is (and reads back the pieces) or it does not.  Without
\* this, a set-up of k such SUBSCRIBEs (no probes in between) has 2^k
\* explanations.  NoSplit in `used` marks the second kind (never reported).
NoSplit == "-keeps-line-breaks-"
NLSub(ev, c) == /\ ev.op = "subscribe" /\ c.ok /\ "n" \in ToSet(ev.a)
                /\ Maildir /\ NLSplit \in Dev
OneServer(ev, c) ==
  /\ NoSplit \in used => NLSplit \notin c.d
  /\ (NLSplit \in used /\ NLSub(ev, c)) => NLSplit \in c.d

TNext ==
  /\ l <= Len(Traces[tid])
  /\ \E c \in {x \in Minimal(Cands(Ev)) : OneServer(Ev, x)} :
       /\ used' = used \cup c.d
                  \cup (IF NLSub(Ev, c) /\ NLSplit \notin c.d THEN {NoSplit} ELSE {})
       /\ mbx' = c.m /\ sub' = c.s
  /\ l' = l + 1 /\ tid' = tid
  /\ UNCHANGED <<last, probe, store>>

TSpec == TInit /\ [][TNext]_tvars

\* register tid: how many events were accepted; register N+tid: the smallest
\* set of deviations of a run that accepted the whole trace
Record ==
  /\ TLCSet(tid, IF TLCGet(tid) > l - 1 THEN TLCGet(tid) ELSE l - 1)
  /\ (l = Len(Traces[tid]) + 1) =>
        TLCSet(N + tid, IF TLCGet(N + tid) = {"-none-"}
                           \/ Cardinality(used \ {NoSplit}) < Cardinality(TLCGet(N + tid))
                        THEN used \ {NoSplit} ELSE TLCGet(N + tid))

Post == \A k \in 1..N : /\ PrintT(<<"VERDICT", k, TLCGet(k), Len(Traces[k])>>)
                        /\ PrintT(<<"USED", k, TLCGet(N + k)>>)
=============================================================================
