SPECIFICATION Spec
CONSTANTS
  MaxLen = 6
  Fixed = {}
INVARIANT TypeOK
INVARIANT OnlyKnown
INVARIANT KnownDeviates
INVARIANT Slices
