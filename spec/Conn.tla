-------------------------------- MODULE Conn --------------------------------
(***************************************************************************)
(* The connection automaton of RFC 3501 section 3 (and, with               *)
(* Service = "sieve", the ManageSieve one of RFC 5804) together with the   *)
(* authentication / authorization rules, as a reference model for the      *)
(* properties C05 and C09.                                                 *)
(*                                                                         *)
(* One action = one complete client input: a one-line command, or a        *)
(* compound exchange (AUTHENTICATE + the client's responses to the         *)
(* continuation requests; IDLE + the line that ends it).  The abstract     *)
(* result of the input is left in `last`:                                  *)
(*   "OK" "NO" "BAD"         tagged completion                             *)
(*   "+OK" "+NO" "+BAD"      the same after at least one continuation      *)
(*   "BYE.OK"                untagged BYE, tagged OK, connection closed    *)
(*   "BYE"  "NONE"           connection closed without a tagged completion *)
(*                                                                         *)
(* Where RFC 3501 / the properties leave latitude the model is             *)
(* nondeterministic (a refused command may be answered NO or BAD, ...).    *)
(* It is strict about accepted vs refused, the state reached, BYE-then-OK  *)
(* on LOGOUT, CLOSE always OK + deselect, a failed SELECT leaving nothing  *)
(* selected, a refused command changing neither state nor data, and about  *)
(* who a connection may act as after which credentials.                    *)
(***************************************************************************)
EXTENDS Naturals, FiniteSets, TLC

CONSTANTS
  Service,   \* "imap" | "sieve"
  Users,     \* provisioned users (strings)
  Admins,    \* the ones holding the admin role
  Envs,      \* subset of {"plain", "tlsremote", "tlslocal"}: server without TLS /
             \* TLS required + remote peer / TLS required + local peer
  Cmds,      \* command instances offered as inputs in this configuration
  Forms,     \* authentication forms offered as inputs
  Kinds,     \* credential classes offered as inputs
  Reauth,    \* FALSE: C05 reading - every authentication command is refused once
             \* authenticated.  TRUE: C09 reading - a later exchange may switch
             \* the identity, but only with credentials that verify
  BadLimit   \* 0: none.  n > 0: the server hangs up after n consecutive BAD

VARIABLES
  auth,      \* "-" or the user the connection acts as
  proof,     \* "-" or the user whose credentials were verified for `auth`
  sel,       \* [m |-> mailbox | "-", mode |-> "rw" | "ro" | "-"]
  tls,       \* TLS active
  stls,      \* STARTTLS advertised
  mechs,     \* SASL mechanisms advertised (PLAIN absent <=> LOGINDISABLED)
  closed,
  boxes,     \* which of the scratch mailboxes "Box", "Box2" exist
  fl,        \* message 1 of INBOX carries \Flagged
  grew,      \* INBOX has received a message (UIDNEXT advanced)
  nbad,      \* consecutive BAD completions (only counted when BadLimit > 0)
  last       \* abstract result of the last input

connv == <<auth, proof, sel, tls, stls, mechs>>
datav == <<boxes, fl, grew>>
vars  == <<auth, proof, sel, tls, stls, mechs, closed, boxes, fl, grew, nbad, last>>

None    == "-"
Ghost   == "ghost"            \* a name that is not a user
NoSel   == [m |-> None, mode |-> None]
AllMech == {"PLAIN", "LOGIN"}
Imap    == Service = "imap"

---------------------------------------------------------------------------
(* credentials *)

FailKinds == {"wrongpw", "emptypw", "unknown", "emptyuser", "malformed",
              "cancel", "cancel2", "empty", "oversized", "cmdline"}

\* k: class; c: authentication identity; z: requested authorization identity
AllCreds ==
     {[k |-> "right", c |-> u, z |-> z] : u \in Users, z \in Users \cup {None, Ghost}}
  \cup {[k |-> "wrongpw", c |-> u, z |-> z] : u \in Users, z \in Users \cup {None}}
  \cup {[k |-> "emptypw", c |-> u, z |-> None] : u \in Users}
  \cup {[k |-> kk, c |-> None, z |-> None] : kk \in FailKinds \ {"wrongpw", "emptypw"}}

Creds == {cr \in AllCreds : cr.k \in Kinds /\ ~(cr.k = "wrongpw" /\ cr.z = cr.c)}

\* which credential classes can be expressed in which form
Applicable(f, cr) ==
  CASE f = "LOGIN"     -> cr.z = None /\ cr.k \in {"right", "wrongpw", "emptypw", "unknown",
                                                   "emptyuser", "oversized"}
    [] f = "LOGINMECH" -> cr.z = None /\ cr.k # "cmdline"
    [] f = "PLAIN"     -> cr.k # "cancel2"
    [] f = "PLAINIR"   -> cr.k \notin {"cancel2", "cmdline"}
    [] OTHER           -> FALSE

\* the credentials verify against the stored secret of an existing user
Verified(cr) == cr.k = "right" /\ cr.c \in Users
Target(cr)   == IF cr.z = None THEN cr.c ELSE cr.z

\* identities the connection may assume after presenting cr
Identities(cr) ==
  IF ~Verified(cr) THEN {}
  ELSE {cr.c} \cup (IF cr.c \in Admins /\ Target(cr) \in Users THEN {Target(cr)} ELSE {})

\* ... and when refusing is not an option
MustAccept(cr) == Verified(cr) /\ Target(cr) = cr.c

Offered(f) == CASE f = "LOGIN"     -> "PLAIN" \in mechs        \* else LOGINDISABLED
                [] f = "LOGINMECH" -> "LOGIN" \in mechs
                [] OTHER           -> "PLAIN" \in mechs

HasCont(f) == f \in {"PLAIN", "LOGINMECH"}

AuthRefusals(f) ==
  IF Imap THEN (IF HasCont(f) THEN {"NO", "BAD", "+NO", "+BAD"} ELSE {"NO", "BAD"})
  ELSE (IF HasCont(f) THEN {"NO", "+NO"} ELSE {"NO"})

AuthOk(f) == IF HasCont(f) THEN "+OK" ELSE "OK"

\* the server may hang up instead of answering these
DropKinds == {"oversized", "malformed"}

---------------------------------------------------------------------------
(* replies *)

\* BadLimit > 0: a tagged BAD counts, any other completion resets (pymap counts
\* and resets only completions that leave the command loop normally - not the
\* NO / BAD produced from an exception, e.g. a failed SELECT or a cancelled
\* AUTHENTICATE; Conn_badlimit.cfg offers no such input)
\* (since fix 438b439 the BAD that reaches the limit is preceded by the untagged BYE)
Reply(r) ==
  /\ IF BadLimit > 0
     THEN IF r = "BAD"
          THEN /\ nbad' = nbad + 1 /\ closed' = (nbad + 1 >= BadLimit)
               /\ last' = IF nbad + 1 >= BadLimit THEN "BYE.BAD" ELSE r
          ELSE nbad' = 0 /\ closed' = FALSE /\ last' = r
     ELSE nbad' = nbad /\ closed' = FALSE /\ last' = r

Hangup(r) == last' = r /\ closed' = TRUE /\ nbad' = nbad

Refusals == IF Imap THEN {"NO", "BAD"} ELSE {"NO"}

Refuse(rs) == /\ \E r \in rs : Reply(r)
              /\ UNCHANGED <<connv, datav>>

Plain(rs) == Refuse(rs)       \* a completion without any effect (used for OK too)

---------------------------------------------------------------------------
(* authentication: LOGIN / AUTHENTICATE <mech> + responses *)

AuthX(f, cr) ==
  /\ ~closed /\ f \in Forms /\ cr \in Creds /\ Applicable(f, cr)
  /\ \/ \* the server may hang up on these in any state
        /\ cr.k \in DropKinds
        /\ \E r \in {"BYE", "NONE"} : Hangup(r)
        /\ UNCHANGED <<connv, datav>>
     \/ IF (auth # None /\ ~Reauth) \/ ~Offered(f)
        THEN Refuse(AuthRefusals(f))
        ELSE \/ \E i \in Identities(cr) :
                  /\ Reply(AuthOk(f))
                  /\ auth' = i /\ proof' = cr.c
                  /\ UNCHANGED <<sel, tls, stls, mechs, datav>>
             \/ /\ ~(MustAccept(cr) /\ auth = None)
                /\ Refuse(AuthRefusals(f))

---------------------------------------------------------------------------
(* IMAP commands.  Instances are named COMMAND_ARGUMENTCLASS. *)

AnyCmds     == {"CAPABILITY", "NOOP", "LOGOUT", "ID_NIL"}
NonAuthCmds == {"STARTTLS"}
SelectCmds  == {"SELECT_INBOX", "SELECT_RO", "SELECT_BOX", "SELECT_NOPE",
                "EXAMINE_INBOX", "EXAMINE_RO", "EXAMINE_BOX", "EXAMINE_NOPE"}
AuthCmds    == SelectCmds \cup
               {"CREATE_BOX", "CREATE_INBOX", "DELETE_BOX", "DELETE_BOX2", "DELETE_NOPE",
                "DELETE_INBOX", "RENAME_BOX_BOX2", "RENAME_NOPE", "RENAME_TO_INBOX",
                "SUBSCRIBE_INBOX", "SUBSCRIBE_NOPE", "UNSUBSCRIBE_INBOX",
                "LIST_ALL", "LSUB_ALL", "STATUS_INBOX", "STATUS_NOPE",
                "APPEND_INBOX", "APPEND_NOPE", "APPEND_RO"}
IdleCmds    == {"IDLE_DONE", "IDLE_JUNK"}
SelCmds     == {"CHECK", "CLOSE", "EXPUNGE", "UID_EXPUNGE", "SEARCH_ALL", "UID_SEARCH_ALL",
                "FETCH_1", "UID_FETCH", "STORE_SET", "UID_STORE_CLR",
                "COPY_SENT", "UID_COPY", "COPY_NOPE", "MOVE_SENT", "UID_MOVE", "MOVE_NOPE"}
                \cup IdleCmds
\* unknown command, unparsable line, known command with invalid arguments:
\* refused in every state
BadCmds     == {"UNKNOWN", "BADLINE", "NOOP_BAD", "ID_BAD", "STARTTLS_BAD", "LOGIN_BAD",
                "AUTH_BADMECH", "AUTH_BAD", "SELECT_BAD", "EXAMINE_BAD", "CREATE_BAD",
                "DELETE_BAD", "RENAME_BAD", "SUBSCRIBE_BAD", "LIST_BAD", "LSUB_BAD",
                "STATUS_BAD", "APPEND_BAD", "CHECK_BAD", "CLOSE_BAD", "EXPUNGE_BAD",
                "SEARCH_BAD", "FETCH_BAD", "STORE_BAD", "COPY_BAD", "MOVE_BAD", "UID_BAD",
                "IDLE_BAD"}
ImapCmds    == AnyCmds \cup NonAuthCmds \cup AuthCmds \cup SelCmds \cup BadCmds

InState(c) == CASE c \in AnyCmds     -> TRUE
                [] c \in NonAuthCmds -> auth = None
                [] c \in AuthCmds    -> auth # None
                [] c \in SelCmds     -> auth # None /\ sel # NoSel
                [] OTHER             -> FALSE

\* SELECT_x / EXAMINE_x
SelTarget(c) == CASE c \in {"SELECT_INBOX", "EXAMINE_INBOX"} -> "INBOX"
                  [] c \in {"SELECT_RO", "EXAMINE_RO"}       -> "RO"
                  [] c \in {"SELECT_BOX", "EXAMINE_BOX"}     -> "Box"
                  [] OTHER                                   -> "Nope"
IsExamine(c) == c \in {"EXAMINE_INBOX", "EXAMINE_RO", "EXAMINE_BOX", "EXAMINE_NOPE"}
Exists(m)    == m \in {"INBOX", "RO"} \/ (m = "Box" /\ "Box" \in boxes)
HasMsg1      == sel.m \in {"INBOX", "RO"}     \* the scratch mailbox "Box" is always empty

\* the selected mailbox is deleted or renamed: the server may hang up (BYE),
\* deselect, or refuse
VanishSelected(nb) ==
  \/ /\ Hangup("BYE.OK") /\ boxes' = nb /\ UNCHANGED <<connv, fl, grew>>
  \/ /\ Reply("OK") /\ boxes' = nb /\ sel' = NoSel
     /\ UNCHANGED <<auth, proof, tls, stls, mechs, fl, grew>>
  \/ Refuse(Refusals)

OkData(nb, nfl, ngrew) ==
  /\ Reply("OK") /\ boxes' = nb /\ fl' = nfl /\ grew' = ngrew /\ UNCHANGED connv

Lax == {"OK", "NO", "BAD"}   \* the RFC leaves the completion open; no effect either way

Effect(c) ==
  CASE c \in {"CAPABILITY", "NOOP", "ID_NIL", "LIST_ALL", "LSUB_ALL", "STATUS_INBOX",
              "SUBSCRIBE_INBOX", "CHECK", "SEARCH_ALL", "UID_SEARCH_ALL"} -> Plain({"OK"})
    [] c = "LOGOUT" -> Hangup("BYE.OK") /\ UNCHANGED <<connv, datav>>
    [] c = "STARTTLS" ->
         IF stls
         THEN /\ Reply("OK") /\ tls' = TRUE /\ stls' = FALSE /\ mechs' = AllMech
              /\ UNCHANGED <<auth, proof, sel, datav>>
         ELSE Refuse(Refusals)
    [] c \in SelectCmds ->
         IF Exists(SelTarget(c))
         THEN /\ Reply("OK")
              /\ sel' = [m |-> SelTarget(c),
                         mode |-> IF IsExamine(c) \/ SelTarget(c) = "RO" THEN "ro" ELSE "rw"]
              /\ UNCHANGED <<auth, proof, tls, stls, mechs, datav>>
         ELSE /\ \E r \in Refusals : Reply(r)
              /\ sel' = NoSel                       \* a failed SELECT deselects
              /\ UNCHANGED <<auth, proof, tls, stls, mechs, datav>>
    [] c = "CREATE_BOX" -> IF "Box" \in boxes THEN Refuse(Refusals)
                           ELSE OkData(boxes \cup {"Box"}, fl, grew)
    [] c = "DELETE_BOX" -> IF "Box" \notin boxes THEN Refuse(Refusals)
                           ELSE IF sel.m = "Box" THEN VanishSelected(boxes \ {"Box"})
                           ELSE OkData(boxes \ {"Box"}, fl, grew)
    [] c = "DELETE_BOX2" -> IF "Box2" \notin boxes THEN Refuse(Refusals)
                            ELSE OkData(boxes \ {"Box2"}, fl, grew)
    [] c = "RENAME_BOX_BOX2" ->
         IF "Box" \notin boxes \/ "Box2" \in boxes THEN Refuse(Refusals)
         ELSE IF sel.m = "Box" THEN VanishSelected({"Box2"})
         ELSE OkData({"Box2"}, fl, grew)
    [] c \in {"CREATE_INBOX", "DELETE_NOPE", "DELETE_INBOX", "RENAME_NOPE", "RENAME_TO_INBOX",
              "STATUS_NOPE", "APPEND_NOPE", "APPEND_RO", "COPY_NOPE", "MOVE_NOPE"} ->
         Refuse(Refusals)
    [] c \in {"SUBSCRIBE_NOPE", "UNSUBSCRIBE_INBOX"} -> Plain({"OK", "NO"})
    [] c = "APPEND_INBOX" -> OkData(boxes, fl, TRUE)
    [] c = "CLOSE" -> /\ Reply("OK") /\ sel' = NoSel        \* always, also after EXAMINE
                      /\ UNCHANGED <<auth, proof, tls, stls, mechs, datav>>
    [] c \in {"EXPUNGE", "UID_EXPUNGE"} ->               \* nothing is ever \Deleted here
         IF sel.mode = "rw" THEN Plain({"OK"}) ELSE Plain(Lax)
    [] c \in {"FETCH_1", "UID_FETCH", "COPY_SENT", "UID_COPY"} ->
         IF HasMsg1 THEN Plain({"OK"}) ELSE Plain(Lax)
    [] c \in {"MOVE_SENT", "UID_MOVE"} ->
         IF HasMsg1 /\ sel.mode = "rw" THEN Plain({"OK"}) ELSE Plain(Lax)
    [] c \in {"STORE_SET", "UID_STORE_CLR"} ->
         IF sel.m = "INBOX" /\ sel.mode = "rw"
         THEN OkData(boxes, c = "STORE_SET", grew)
         ELSE Plain(Lax)
    [] c = "IDLE_DONE" -> Plain({"+OK"})
    [] c = "IDLE_JUNK" -> Plain({"+BAD", "+NO"})

IDo(c) ==
  /\ ~closed /\ Imap /\ c \in Cmds \cap ImapCmds
  /\ IF c \in BadCmds
     THEN IF c \in {"SELECT_BAD", "EXAMINE_BAD"}
          THEN \* not recognisably a SELECT: the selection may or may not survive
               /\ \E r \in Refusals : Reply(r)
               /\ sel' \in {sel, NoSel}
               /\ UNCHANGED <<auth, proof, tls, stls, mechs, datav>>
          ELSE Refuse(Refusals)
     ELSE IF InState(c) THEN Effect(c)
     ELSE IF c \in IdleCmds /\ auth # None
     THEN \* RFC 2177 allows IDLE without a selected mailbox
          Refuse(Refusals) \/ Effect(c)
     ELSE Refuse(Refusals)

---------------------------------------------------------------------------
(* ManageSieve commands (RFC 5804) *)

SieveCmds == {"CAPABILITY", "NOOP", "LOGOUT", "STARTTLS", "UNAUTHENTICATE",
              "LISTSCRIPTS", "UNKNOWN"}

Sv(c) ==
  /\ ~closed /\ ~Imap /\ c \in Cmds \cap SieveCmds
  /\ CASE c \in {"CAPABILITY", "NOOP"} -> Plain({"OK"})
       [] c = "UNKNOWN" -> Refuse({"NO"})
       [] c = "LOGOUT" -> (\E r \in {"OK", "BYE"} : Hangup(r)) /\ UNCHANGED <<connv, datav>>
       [] c = "LISTSCRIPTS" -> IF auth # None THEN Plain({"OK"}) ELSE Refuse({"NO"})
       [] c = "UNAUTHENTICATE" ->
            IF auth = None THEN Refuse({"NO"})
            ELSE /\ Reply("OK") /\ auth' = None /\ proof' = None
                 /\ UNCHANGED <<sel, tls, stls, mechs, datav>>
       [] c = "STARTTLS" ->
            IF auth = None /\ stls
            THEN /\ Reply("OK") /\ tls' = TRUE /\ stls' = FALSE /\ mechs' = AllMech
                 /\ UNCHANGED <<auth, proof, sel, datav>>
            ELSE Refuse({"NO"})

---------------------------------------------------------------------------

Init ==
  /\ auth = None /\ proof = None /\ sel = NoSel /\ tls = FALSE /\ closed = FALSE
  /\ boxes = {} /\ fl = FALSE /\ grew = FALSE /\ nbad = 0 /\ last = "INIT"
  /\ \E e \in Envs :
       CASE e = "plain"     -> stls = FALSE /\ mechs = AllMech
         [] e = "tlsremote" -> stls = TRUE /\ mechs = {}
         \* a local peer may be trusted with plain-text mechanisms or not
         [] e = "tlslocal"  -> stls = TRUE /\ mechs \in {{}, AllMech}

---------------------------------------------------------------------------
(* the model's own consistency: the clauses of C05 / C09, stated           *)
(* independently of the tables above                                       *)

Results == {"INIT", "OK", "NO", "BAD", "+OK", "+NO", "+BAD", "BYE.OK", "BYE.BAD", "BYE", "NONE"}

TypeOK ==
  /\ auth \in Users \cup {None} /\ proof \in Users \cup {None}
  /\ sel \in [m : {None, "INBOX", "RO", "Box"}, mode : {None, "rw", "ro"}]
  /\ tls \in BOOLEAN /\ stls \in BOOLEAN /\ closed \in BOOLEAN
  /\ mechs \subseteq AllMech /\ boxes \subseteq {"Box", "Box2"}
  /\ fl \in BOOLEAN /\ grew \in BOOLEAN /\ nbad \in Nat /\ last \in Results

\* C09: whoever the connection acts as, somebody's credentials verified, and
\* it is that user or that user is an admin
AuthSound == auth # None => /\ proof \in Users
                            /\ (auth = proof \/ proof \in Admins)
NoProofNoAuth == auth = None => proof = None

\* C05: selected implies authenticated; the read-only mailbox is never rw
SelSound == sel # NoSel => /\ auth # None /\ sel.m # None /\ sel.mode # None
                           /\ (sel.m = "RO" => sel.mode = "ro")
                           /\ (closed \/ sel.m # "Box" \/ "Box" \in boxes)
ByeCloses == last \in {"BYE.OK", "BYE.BAD", "BYE", "NONE"} => closed

\* "BYE.BAD": the BAD completion that reaches the bad-command limit (BYE, then the BAD)
IsRefusal(r) == r \in {"NO", "BAD", "+NO", "+BAD", "BYE.BAD"}

\* The remaining clauses are step properties, stated per input.

\* C05: a refused command has no effect on state or data (the one exception
\* RFC 3501 makes is the failed SELECT/EXAMINE, which deselects)
RefusedNoEffect(c) ==
  (IsRefusal(last') /\ c \notin SelectCmds \cup {"SELECT_BAD", "EXAMINE_BAD"})
     => UNCHANGED <<connv, datav>>

\* C05: gates
Gates(c) ==
  /\ (c \in AuthCmds /\ auth = None => IsRefusal(last') /\ UNCHANGED <<connv, datav>>)
  /\ (c \in SelCmds /\ sel = NoSel /\ ~(c \in IdleCmds /\ auth # None)
        => IsRefusal(last') /\ UNCHANGED <<connv, datav>>)
  /\ (c \in NonAuthCmds /\ auth # None => IsRefusal(last') /\ UNCHANGED <<connv, datav>>)

\* C05: SELECT / CLOSE / LOGOUT
SelectExact(c) ==
  (c \in SelectCmds /\ auth # None) =>
     \/ last' = "OK" /\ sel'.m = SelTarget(c) /\ Exists(SelTarget(c))
     \/ IsRefusal(last') /\ sel' = NoSel
CloseDeselects(c) == (c = "CLOSE" /\ sel # NoSel) => last' = "OK" /\ sel' = NoSel
LogoutByeOk(c)    == c = "LOGOUT" => last' = "BYE.OK" /\ closed'

CmdClauses(c) == /\ RefusedNoEffect(c) /\ Gates(c) /\ SelectExact(c)
                 /\ CloseDeselects(c) /\ LogoutByeOk(c)

\* C05: LOGIN / AUTHENTICATE refused once authenticated
NoAuthOnceAuth(f, cr) ==
  (auth # None /\ ~Reauth) => (IsRefusal(last') \/ closed') /\ UNCHANGED <<connv, datav>>
\* C09: a failed, cancelled or malformed exchange changes nothing
FailedAuthNoEffect(f, cr) ==
  (IsRefusal(last') \/ closed' \/ ~Verified(cr)) => UNCHANGED <<connv, datav>>
\* C09: plain-text LOGIN is refused while LOGINDISABLED is advertised
LoginDisabled(f, cr) ==
  (f = "LOGIN" /\ "PLAIN" \notin mechs) => (IsRefusal(last') \/ closed') /\ auth' = auth
\* C09: the identity assumed is the verified user or - for an admin - the
\* requested existing user
ActsAs(f, cr) ==
  auth' # auth => /\ Verified(cr) /\ Offered(f)
                  /\ (auth' = cr.c \/ (cr.c \in Admins /\ auth' = cr.z /\ cr.z \in Users))

AuthClauses(f, cr) == /\ NoAuthOnceAuth(f, cr) /\ FailedAuthNoEffect(f, cr)
                      /\ LoginDisabled(f, cr) /\ ActsAs(f, cr)

---------------------------------------------------------------------------
(* Next-state relation.  Every step is checked against the clauses as it   *)
(* is generated (a TLC assertion failure = the model contradicts the       *)
(* property it is supposed to encode).                                     *)

Do(c) ==
  /\ IDo(c) \/ Sv(c)
  /\ ~Imap \/ Assert(CmdClauses(c), <<"C05 clause violated by command", c>>)

Auth(f, cr) ==
  /\ AuthX(f, cr)
  /\ Assert(AuthClauses(f, cr), <<"C05/C09 clause violated by exchange", f, cr>>)

Terminated == closed /\ UNCHANGED vars

Next == \/ \E c \in Cmds : Do(c)
        \/ \E f \in Forms, cr \in Creds : Auth(f, cr)
        \/ Terminated

Spec == Init /\ [][Next]_vars

\* State constraint of Conn_c05.cfg: the data dimension is explored in the
\* configuration without TLS only (TLS plays no role once authenticated)
DataOnlyWithoutTls == (tls \/ stls) => (boxes = {} /\ ~fl /\ ~grew)

\* The same clauses as temporal formulas over the unchecked actions (slower
\* for TLC: checked in the thorough tier)
CommandClauses == [][\A c \in Cmds : IDo(c) => CmdClauses(c)]_vars
ExchangeClauses == [][\A f \in Forms, cr \in Creds : AuthX(f, cr) => AuthClauses(f, cr)]_vars
\* C09: nothing but an authentication exchange (or UNAUTHENTICATE) changes
\* the identity
IdentityOnlyByAuth ==
  [][auth' # auth => \/ ~Imap /\ auth' = None /\ Sv("UNAUTHENTICATE")
                     \/ \E f \in Forms, cr \in Creds : AuthX(f, cr)]_vars
=============================================================================
