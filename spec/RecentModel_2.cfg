SPECIFICATION Spec
CONSTANTS
  Sess = {a, b}
  MaxLen = 5
INVARIANT ReadOnlyNeverHolds
INVARIANT ClaimedBySelect
CHECK_DEADLOCK FALSE
