SPECIFICATION Spec
CONSTANTS
  Kind = "date"
  MaxElems = 1
  Fixed <- DevsNone
INVARIANT OnlyKnown
