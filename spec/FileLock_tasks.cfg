SPECIFICATION Spec
CONSTANTS
  Task = {t1, t2, t3}
  MaxOps = 2
  MaxRetry = 2
  MaxFault = 1
  Atomic = TRUE
  StaleAtStart = TRUE
INVARIANT WriterExcl
INVARIANT FileIsHolders
INVARIANT ReleasedAtEnd
