SPECIFICATION Spec
CONSTANTS
  MaxLen = 7
  Fixed = {"WhitespaceOnlyTail", "NoSeparatorHeader", "BodystructureSizeIncludesHeader"}
INVARIANT TypeOK
INVARIANT Fidelity
INVARIANT PartSize
INVARIANT Slices
