SPECIFICATION Spec
CONSTANTS
  Kind = "cmd"
  MaxArgs = 2
INVARIANT TypeOK
CHECK_DEADLOCK FALSE
