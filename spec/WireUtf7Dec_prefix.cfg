SPECIFICATION Spec
CONSTANTS
  MaxLen = 4
  Fixed <- DevsNone
INVARIANT TypeOK
PROPERTY Terminates
