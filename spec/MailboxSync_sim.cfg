SPECIFICATION Spec
CONSTANTS
  Sess = {a, b}
  MaxUid = 5
  InitMsgs = 3
  Flags = {"D", "S", "F"}
  MaxCmds = 12
  Menu = {"select", "close", "noop", "store", "fetch", "expunge", "append", "move", "copy"}
  Devs = {}
CONSTRAINT Constr
CHECK_DEADLOCK FALSE
