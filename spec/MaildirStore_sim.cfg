SPECIFICATION Spec
CONSTANTS
  Names = {"INBOX", "Box", "Arch"}
  MaxMsgs = 3
  MaxOps = 4
  MaxSel = 3
  MaxCrashes = 0
  FlagSet = {"S", "T", "F"}
  AppendFlags = {{}, {"S"}, {"T"}}
  Dev = {"MoveKeepsSourceRecord"}
  Tol = {"MoveKeepsSourceRecord"}
  OtherFs = FALSE
  Virgin = FALSE
  Existing = {}
INVARIANT TypeOK
CHECK_DEADLOCK FALSE
