\* The default configuration hangs up after 5 consecutive BAD completions:
\* the counter is one more piece of connection state.  Small alphabet (every
\* completion goes through the command loop; SELECT_NOPE and DELETE_NOPE answer NO
\* by way of an exception, CREATE_INBOX by way of a returned response).
CONSTANTS
  Service = "imap"
  Users = {"u1"}
  Admins = {}
  Envs = {"plain"}
  Cmds = {"NOOP", "NOOP_BAD", "UNKNOWN", "LIST_ALL", "LIST_BAD", "FETCH_1", "SELECT_INBOX", "SELECT_NOPE", "DELETE_NOPE", "CREATE_INBOX", "LOGOUT"}
  Forms = {"LOGIN"}
  Kinds = {"right"}
  Reauth = FALSE
  BadLimit = 5
INIT Init
NEXT Next
INVARIANT TypeOK
INVARIANT AuthSound
INVARIANT SelSound
INVARIANT ByeCloses
