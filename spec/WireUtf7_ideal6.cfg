SPECIFICATION Spec
CONSTANTS
  MaxLen = 6
  Fixed <- AllDevs
INVARIANT TypeOK
INVARIANT RoundTrip
INVARIANT WellFormedOut
