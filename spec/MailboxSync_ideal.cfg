SPECIFICATION Spec
CONSTANTS
  Sess = {a, b}
  MaxUid = 3
  InitMsgs = 2
  Flags = {"D", "S"}
  MaxCmds = 4
  Menu = {"select", "noop", "store", "fetch", "expunge", "append"}
  Devs = {}
CONSTRAINT Constr
INVARIANT ConvergedUids
INVARIANT ConvergedFlags
INVARIANT ForkIsView
INVARIANT RecentOnce
PROPERTY ReadOnlyInert
CHECK_DEADLOCK FALSE
