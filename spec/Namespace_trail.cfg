\* trailing hierarchy delimiter in CREATE
SPECIFICATION SpecAsIs
CONSTANTS
  CreateArgs <- TrailCreate
  NameArgs <- TrailName
  AppendArgs = {}
  SubArgs = {}
  RenameArgs = {}
  ListQ <- TrailListQ
  LsubQ = {}
  InitSets <- None
  MaxMsgs = 1
  MaxLen = 3
  AllOpen <- AllKnown
  Stores = {"dict", "pp", "fs"}
INVARIANT TypeOK
CHECK_DEADLOCK FALSE
