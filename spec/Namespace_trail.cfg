\* trailing hierarchy delimiter in CREATE
SPECIFICATION SpecAsIs
CONSTANTS
  CreateArgs <- TrailCreate
  NameArgs <- TrailName
  AppendArgs = {}
  SubArgs = {}
  RenameArgs = {}
  ListQ <- TrailListQ
  LsubQ = {}
  InitSets <- None
  MaxMsgs = 1
  MaxLen = 3
  Dev <- AllDev
  Store = "dict"
INVARIANT TypeOK
CHECK_DEADLOCK FALSE
