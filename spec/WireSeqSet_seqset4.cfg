SPECIFICATION Spec
CONSTANTS
  Kind = "seqset"
  MaxElems = 4
  Fixed <- DevsNone
INVARIANT RoundTrip
