SPECIFICATION Spec
CONSTANTS
  MaxLines = 7
  Prefix <- PrefixNest
  Alphabet <- AlphaNest
  Fixed <- AllDevs
INVARIANT TypeOK
INVARIANT Fidelity
INVARIANT PartSize
