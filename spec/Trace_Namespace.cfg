\* the judge: RFC 3501 latitude + the named deviations (reported in USED)
SPECIFICATION TSpec
CONSTANTS
  CreateArgs = {}
  NameArgs = {}
  AppendArgs = {}
  SubArgs = {}
  RenameArgs = {}
  ListQ = {}
  LsubQ = {}
  InitSets = {}
  MaxMsgs = 1000
  MaxLen = 1000
  AllOpen <- AllKnown
  Stores = {"dict", "pp", "fs"}
CONSTRAINT Record
POSTCONDITION Post
CHECK_DEADLOCK FALSE
