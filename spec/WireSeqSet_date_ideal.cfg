SPECIFICATION Spec
CONSTANTS
  Kind = "date"
  MaxElems = 1
  Fixed <- AllDevs
INVARIANT RoundTrip
