---------------------------- MODULE Trace_Total ----------------------------
(***************************************************************************)
(* Observer for C06 (and, through the `malformed` event, C07) over one     *)
(* connection's transcript.  Events, in order:                             *)
(*   in       a complete command line / continuation data was sent         *)
(*   tagged   a tagged completion was written (cond)                       *)
(*   cont     a continuation request was written                           *)
(*   bye      an untagged BYE was written (serverbug: it carried           *)
(*            [SERVERBUG])                                                 *)
(*   malformed  bytes were written that the strict grammar rejects         *)
(*   end      the state at the end: connection closed?, did its task end   *)
(*            with an exception?, did the run exceed its step/time budget  *)
(*            (hang)?, had the client sent EOF?, was a second connection   *)
(*            still answered (peer)?                                       *)
(*                                                                         *)
(*  C06_ExactlyOne     never two completions for one line                  *)
(*  C06_Answered       every line sent is answered by a tagged completion, *)
(*                     a continuation request, or BYE before close         *)
(*  C06_NoServerBug    never BYE [SERVERBUG]                               *)
(*  C06_ByeBeforeClose the server never closes without saying BYE (unless  *)
(*                     the client closed first)                            *)
(*  C06_NoException    the connection task never dies with an exception    *)
(*  C06_NoHang         bounded steps                                       *)
(*  C06_OthersServed   other connections are still served                  *)
(*  C07_WellFormed     every byte written parses under the grammar         *)
(***************************************************************************)
EXTENDS Naturals, Sequences, TLC, Json, IOUtils

Traces == JsonDeserialize(IOEnv.TRACE_FILE).traces
N == Len(Traces)
ASSUME \A i \in 1..N : TLCSet(i, <<0, "">>)

VARIABLES tid, l,
          owed,     \* lines sent and not yet answered
          byes,     \* a BYE has been written
          bad
vars == <<tid, l, owed, byes, bad>>

Init == tid \in 1..N /\ l = 1 /\ owed = 0 /\ byes = FALSE /\ bad = ""
Ev == Traces[tid][l]
Fail(c) == bad' = c /\ UNCHANGED <<owed, byes>>

Handle(ev) ==
  CASE ev.e = "in" -> owed' = owed + 1 /\ UNCHANGED <<byes, bad>>
    [] ev.e \in {"tagged", "cont"} ->
         IF owed = 0 THEN Fail("C06_ExactlyOne")
         ELSE owed' = owed - 1 /\ UNCHANGED <<byes, bad>>
    [] ev.e = "bye" ->
         IF ev.serverbug THEN Fail("C06_NoServerBug")
         ELSE byes' = TRUE /\ UNCHANGED <<owed, bad>>
    [] ev.e = "malformed" -> Fail("C07_WellFormed")
    [] ev.e = "end" ->
         IF ev.hang THEN Fail("C06_NoHang")
         ELSE IF ev.exc THEN Fail("C06_NoException")
         ELSE IF ev.closed /\ ~byes /\ ~ev.eof THEN Fail("C06_ByeBeforeClose")
         ELSE IF owed > 0 /\ ~(ev.closed /\ (byes \/ ev.eof)) THEN Fail("C06_Answered")
         ELSE IF ~ev.peer THEN Fail("C06_OthersServed")
         ELSE UNCHANGED <<owed, byes, bad>>
    [] OTHER -> UNCHANGED <<owed, byes, bad>>

Next == /\ l <= Len(Traces[tid]) /\ bad = ""
        /\ Handle(Ev)
        /\ l' = l + 1 /\ tid' = tid

Spec == Init /\ [][Next]_vars
Record == IF bad # "" /\ TLCGet(tid)[2] = "" THEN TLCSet(tid, <<l - 1, bad>>) ELSE TRUE
Post == \A i \in 1..N : PrintT(<<"VERDICT", i, TLCGet(i)[1], TLCGet(i)[2]>>)
=============================================================================
