-------------------------------- MODULE Sieve --------------------------------
(***************************************************************************)
(* C19 - reference model of a ManageSieve (RFC 5804) listener with two     *)
(* users and three connections.                                            *)
(*                                                                         *)
(*  - the gate: before a successful AUTHENTICATE only CAPABILITY, NOOP,    *)
(*    LOGOUT, STARTTLS and AUTHENTICATE do anything; every other command   *)
(*    is refused and changes nothing;                                      *)
(*  - after authentication the script store of the authenticated user is a *)
(*    map name -> content with at most one active name.                    *)
(*                                                                         *)
(* Script names and script contents are abstract: n1, n2 are two different *)
(* non-empty names, `empty` is the empty string (only ever an argument,    *)
(* never a key), s1, s2 are two different scripts that compile, `bad` is   *)
(* the class of byte strings that do not compile.  The binding             *)
(* (harness/checks/c19.py) concretises them in many ways.                  *)
(*                                                                         *)
(* Profile says which kind of script store the behaviours are about:       *)
(*  - "dict": any name can be stored (pymap's dict backend);               *)
(*  - "single": the store has room for ONE script under ONE permanent      *)
(*    name (pymap.filter.SingleFilterSet, the maildir backend's file       *)
(*    dovecot.sieve, permanently called "active"): Holdable = {n1}, n1 is  *)
(*    bound to that name, n2 to any other name.  The property is the same: *)
(*    the store is a map name -> bytes with at most one active name.  What *)
(*    such a store may do differently is only this: it MAY refuse (NO) a   *)
(*    name it cannot hold (PUTSCRIPT, RENAMESCRIPT target), and since the  *)
(*    stored script is always the active one it refuses to deactivate it   *)
(*    (SETACTIVE "").  An OK that stores nothing is never allowed.         *)
(* The named deviations of the tree under test (DevTags) are the outcomes  *)
(* that contradict the property; deviation d REPLACES the outcome the      *)
(* property asks for when d \in Open (the as-is model the binding follows; *)
(* Open = {} when the model is checked against its laws), and the result   *)
(* carries r.dev = d.                                                      *)
(*                                                                         *)
(* Every action carries the result `r` the server must produce as its last *)
(* parameter (so that it shows up in the edge labels of the dumped state   *)
(* graph) and stores it in `last` together with the command.  Where        *)
(* RFC 5804 / the property leaves latitude the result is a SET of allowed  *)
(* condition classes / response codes, or the action has two alternative   *)
(* results distinguished by r.alt (two edges).                             *)
(***************************************************************************)
EXTENDS Naturals, FiniteSets, TLC

CONSTANTS c1, c2, c3,       \* connections
          u1, u2,           \* users
          n1, n2, empty,    \* script names; empty = ""
          s1, s2, bad,      \* script contents; bad = does not compile
          none,             \* no user / no content
          Scope,            \* "small" | "medium" | "full": which arguments each
                            \* connection uses (bounds only, not semantics)
          Latitude,         \* the alternatives (r.alt tags) that are enabled where
                            \* the property allows two behaviours: all of them when
                            \* the model is checked; the ones the implementation is
                            \* measured to take when behaviours are generated
          Profile,          \* "dict" | "single": the kind of script store
          Open              \* the deviations (r.dev tags) that are switched on

VARIABLES auth,    \* auth[c]: the user connection c is authenticated as, or none
          store,   \* store[u][n]: content of script n of user u, or none
          active,  \* active[u]: the SET of active names of user u
          last     \* the last command and the result the server must give

base == <<auth, store, active>>
vars == <<auth, store, active, last>>

Conns    == {c1, c2, c3}
Users    == {u1, u2}
Names    == {n1, n2}
Valid    == {s1, s2}
Contents == Valid \cup {bad}

Dom(u) == {n \in Names : store[u][n] # none}

\* the names the store has room for
Holdable == IF Profile = "single" THEN {n1} ELSE Names
Single   == Profile = "single"

---------------------------------------------------------------------------
(* Bounds.  small: c1 belongs to u1 and uses every argument, c2 belongs to *)
(* u2 and uses the SAME name n1 with another content (the collision that   *)
(* matters for isolation), c3 never authenticates.  medium: c3 is a second *)
(* connection of u1.  full: any connection, any user, every argument (too  *)
(* large to enumerate with `last`; used for -simulate).                    *)

MayAuth(c) == CASE Scope = "small"  -> (IF c = c1 THEN {u1} ELSE IF c = c2 THEN {u2} ELSE {})
                [] Scope = "medium" -> (IF c = c2 THEN {u2} ELSE {u1})
                [] OTHER            -> Users

Rich(c) == Scope = "full" \/ c = c1

NameArgs(c)  == IF Rich(c) THEN Names \cup {empty} ELSE {n1}
ContArgs(c)  == IF Rich(c) THEN Contents ELSE IF c = c2 THEN {s2} ELSE {s1}
AuthUsers(c) == IF Rich(c) THEN Users ELSE IF c = c2 THEN {u2} ELSE {u1}
AuthHows(c)  == IF Rich(c) THEN {"good", "badpw", "authz"} ELSE {"good", "badpw"}
JunkKinds(c) == IF Rich(c) THEN {"nouser", "badmech", "cancel", "garbled"} ELSE {"nouser"}

---------------------------------------------------------------------------
(* Results *)

Codes == {"", "NONEXISTENT", "ACTIVE", "ALREADYEXISTS", "QUOTA", "TAG", "ANY"}

Res(cls, code, kind, names, act, body, owner, alt) ==
    [cls |-> cls, code |-> code, kind |-> kind, names |-> names, act |-> act,
     body |-> body, owner |-> owner, alt |-> alt, dev |-> ""]

Plain(cls, code) == Res(cls, code, "plain", {}, {}, none, none, "")
Ok          == Plain({"OK"}, {""})
OkCode(cd)  == Plain({"OK"}, {cd})
No(cd)      == Plain({"NO"}, {cd})
NoAny       == Plain({"NO"}, {"ANY"})            \* no particular code required
Refused     == Plain({"NO", "BYE"}, {"ANY"})     \* the gate: refused, maybe dropped
Alt(r, tag) == [r EXCEPT !.alt = tag]
AltTags     == {"PutBadRefused", "PutBadStored", "AuthzRefused", "AuthzAsAuthcid"}
Allowed(rs) == {r \in rs : r.alt \in Latitude}
\* Deviations of the single store, each named after what it does:
\*  SinglePutOtherNameDropped  PUTSCRIPT of a name the store cannot hold: OK,
\*                             nothing stored (PUTSCRIPT-then-GETSCRIPT)
\*  SingleDeleteActive         DELETESCRIPT of the stored (= active) script: OK,
\*                             the script is gone (the active script cannot be
\*                             deleted)
\*  SingleSetActiveMissing     SETACTIVE of the holdable name while nothing is
\*                             stored: OK, nothing is active (LISTSCRIPTS marks
\*                             the active one)
\*  SingleDeleteMissing        DELETESCRIPT of the holdable name while nothing is
\*                             stored: OK (a map has nothing to delete there)
DevTags     == {"SinglePutOtherNameDropped", "SingleDeleteActive",
                "SingleSetActiveMissing", "SingleDeleteMissing"}
Dev(r, tag) == [r EXCEPT !.dev = tag]
\* the outcome the property asks for, unless the deviation is switched on
OrDev(r, tag) == IF Single /\ tag \in Open THEN Dev(Ok, tag) ELSE r
ListR(ns, a) == Res({"OK"}, {""}, "list", ns, a, none, none, "")
ScriptR(s)   == Res({"OK"}, {""}, "script", {}, {}, s, none, "")
CapsR(o)     == Res({"OK"}, {""}, "caps", {}, {}, none, o, "")

ResultT == [cls : SUBSET {"OK", "NO", "BYE", "NONE"}, code : SUBSET Codes,
            kind : {"plain", "list", "script", "caps"},
            names : SUBSET Names, act : SUBSET Names,
            body : Contents \cup {none}, owner : Users \cup {none},
            alt : AltTags \cup {""}, dev : DevTags \cup {""}]

ASSUME Latitude \subseteq AltTags
ASSUME Profile \in {"dict", "single"} /\ Open \subseteq DevTags

PreAuthCmds == {"Capability", "Noop", "Logout", "StartTLS", "Auth", "AuthJunk"}
ScriptCmds  == {"Put", "Get", "List", "SetActive", "Delete", "Rename", "Check", "HaveSpace"}
AllCmds     == PreAuthCmds \cup ScriptCmds \cup {"Unauth", "Unknown", "Drop", "Init"}

Did(c, cmd, a, b, r) == last' = [conn |-> c, cmd |-> cmd, a |-> a, b |-> b, res |-> r]

Same == UNCHANGED base

Init == /\ auth = [c \in Conns |-> none]
        /\ store = [u \in Users |-> [n \in Names |-> none]]
        /\ active = [u \in Users |-> {}]
        /\ last = [conn |-> none, cmd |-> "Init", a |-> none, b |-> none, res |-> Ok]

---------------------------------------------------------------------------
(* Commands that work before authentication *)

CapabilityRes(c) == {CapsR(auth[c])}
Capability(c, r) == r \in CapabilityRes(c) /\ Did(c, "Capability", none, none, r) /\ Same

NoopRes(c, t) == {IF t = "tagged" THEN OkCode("TAG") ELSE Ok}
Noop(c, t, r) == r \in NoopRes(c, t) /\ Did(c, "Noop", t, none, r) /\ Same

\* RFC 5804 2.3 asks for OK; BYE is accepted too.  Either way the connection is
\* gone afterwards (the binding opens a fresh one under the same name).
LogoutRes(c) == {Plain({"OK", "BYE"}, {"ANY"})}
Logout(c, r) == /\ r \in LogoutRes(c)
                /\ Did(c, "Logout", none, none, r)
                /\ auth' = [auth EXCEPT ![c] = none]
                /\ UNCHANGED <<store, active>>

\* The client goes away in the middle of a command (inside the command line,
\* right after a literal marker, or inside literal data): the incomplete
\* command does nothing, the server need not say anything ("NONE"), the
\* connection is gone (the binding opens a fresh one under the same name).
DropRes(c) == {Plain({"NONE", "NO", "BYE"}, {"ANY"})}
Drop(c, r) == /\ r \in DropRes(c)
              /\ Did(c, "Drop", none, none, r)
              /\ auth' = [auth EXCEPT ![c] = none]
              /\ UNCHANGED <<store, active>>

\* no TLS is configured in the binding: STARTTLS cannot succeed
StartTLSRes(c) == {NoAny}
StartTLS(c, r) == r \in StartTLSRes(c) /\ Did(c, "StartTLS", none, none, r) /\ Same

(* AUTHENTICATE as user u: how = good (right password), badpw, authz (right *)
(* password of u, authorization identity = the OTHER user, u is no admin):  *)
(* may be refused or may log in as u - never as the other user.             *)
AuthRes(c, u, how) ==
    IF auth[c] # none THEN {NoAny}
    ELSE CASE how = "good"  -> {Ok}
           [] how = "badpw" -> {NoAny}
           [] how = "authz" -> Allowed({Alt(NoAny, "AuthzRefused")} \cup
                               (IF u \in MayAuth(c) THEN {Alt(Ok, "AuthzAsAuthcid")} ELSE {}))
Auth(c, u, how, r) ==
    /\ how = "good" => u \in MayAuth(c)
    /\ r \in AuthRes(c, u, how)
    /\ Did(c, "Auth", u, how, r)
    /\ auth' = IF r.cls = {"OK"} THEN [auth EXCEPT ![c] = u] ELSE auth
    /\ UNCHANGED <<store, active>>

\* unknown user, unknown mechanism, cancelled exchange, garbled base64
AuthJunkRes(c, kind) == {NoAny}
AuthJunk(c, kind, r) == r \in AuthJunkRes(c, kind) /\ Did(c, "AuthJunk", kind, none, r) /\ Same

---------------------------------------------------------------------------
(* Everything else is gated *)

UnauthRes(c) == {IF auth[c] = none THEN Refused ELSE Ok}
Unauth(c, r) == /\ r \in UnauthRes(c)
                /\ Did(c, "Unauth", none, none, r)
                /\ auth' = [auth EXCEPT ![c] = none]
                /\ UNCHANGED <<store, active>>

UnknownRes(c) == {IF auth[c] = none THEN Refused ELSE NoAny}
Unknown(c, r) == r \in UnknownRes(c) /\ Did(c, "Unknown", none, none, r) /\ Same

PutRes(c, n, s) ==
    IF auth[c] = none THEN {Refused}
    ELSE IF n = empty THEN {NoAny}
    ELSE IF n \notin Holdable THEN {OrDev(NoAny, "SinglePutOtherNameDropped")}
    ELSE IF s = bad THEN Allowed({Alt(NoAny, "PutBadRefused"), Alt(Ok, "PutBadStored")})
    ELSE {Ok}
\* single: the stored script is the active one
Put(c, n, s, r) ==
    /\ r \in PutRes(c, n, s)
    /\ Did(c, "Put", n, s, r)
    /\ store' = IF r.cls = {"OK"} /\ r.dev = ""
                THEN [store EXCEPT ![auth[c]][n] = s] ELSE store
    /\ active' = IF Single /\ r.cls = {"OK"} /\ r.dev = ""
                 THEN [active EXCEPT ![auth[c]] = {n}] ELSE active
    /\ UNCHANGED auth

GetRes(c, n) ==
    IF auth[c] = none THEN {Refused}
    ELSE IF n = empty THEN {NoAny}
    ELSE IF n \notin Dom(auth[c]) THEN {No("NONEXISTENT")}
    ELSE {ScriptR(store[auth[c]][n])}
Get(c, n, r) == r \in GetRes(c, n) /\ Did(c, "Get", n, none, r) /\ Same

ListRes(c) ==
    IF auth[c] = none THEN {Refused}
    ELSE {ListR(Dom(auth[c]), active[auth[c]])}
List(c, r) == r \in ListRes(c) /\ Did(c, "List", none, none, r) /\ Same

SetActiveRes(c, n) ==
    IF auth[c] = none THEN {Refused}
    ELSE IF n = empty THEN (IF ~Single THEN {Ok}
                            \* single: the stored script cannot be deactivated;
                            \* with nothing stored OK and NO say the same
                            ELSE IF Dom(auth[c]) # {} THEN {NoAny}
                            ELSE {Plain({"OK", "NO"}, {"ANY"})})
    ELSE IF n \notin Dom(auth[c])
         THEN {IF n \in Holdable THEN OrDev(No("NONEXISTENT"), "SingleSetActiveMissing")
                                ELSE No("NONEXISTENT")}
    ELSE {Ok}
SetActive(c, n, r) ==
    /\ r \in SetActiveRes(c, n)
    /\ Did(c, "SetActive", n, none, r)
    /\ active' = IF r.cls = {"OK"} /\ r.dev = ""
                 THEN [active EXCEPT ![auth[c]] = IF n = empty THEN {} ELSE {n}]
                 ELSE active
    /\ UNCHANGED <<auth, store>>

DeleteRes(c, n) ==
    IF auth[c] = none THEN {Refused}
    ELSE IF n = empty THEN {NoAny}
    ELSE IF n \notin Dom(auth[c])
         THEN {IF n \in Holdable THEN OrDev(No("NONEXISTENT"), "SingleDeleteMissing")
                                ELSE No("NONEXISTENT")}
    ELSE IF n \in active[auth[c]] THEN {OrDev(No("ACTIVE"), "SingleDeleteActive")}
    ELSE {Ok}
\* (SingleDeleteActive: the script and its active mark are both gone)
Delete(c, n, r) ==
    /\ r \in DeleteRes(c, n)
    /\ Did(c, "Delete", n, none, r)
    /\ store' = IF r.cls = {"OK"} THEN [store EXCEPT ![auth[c]][n] = none] ELSE store
    /\ active' = IF r.dev = "SingleDeleteActive"
                 THEN [active EXCEPT ![auth[c]] = @ \ {n}] ELSE active
    /\ UNCHANGED auth

RenameRes(c, a, b) ==
    IF auth[c] = none THEN {Refused}
    ELSE IF a = empty \/ b = empty THEN {NoAny}
    ELSE IF a \notin Dom(auth[c]) THEN {No("NONEXISTENT")}
    ELSE IF b \in Dom(auth[c]) THEN {No("ALREADYEXISTS")}
    ELSE IF b \notin Holdable THEN {NoAny}
    ELSE {Ok}
Rename(c, a, b, r) ==
    /\ r \in RenameRes(c, a, b)
    /\ Did(c, "Rename", a, b, r)
    /\ IF r.cls = {"OK"}
       THEN LET u == auth[c] IN
            /\ store' = [store EXCEPT ![u] = [@ EXCEPT ![b] = store[u][a], ![a] = none]]
            /\ active' = [active EXCEPT ![u] = IF a \in @ THEN {b} ELSE @]
       ELSE UNCHANGED <<store, active>>
    /\ UNCHANGED auth

CheckRes(c, s) ==
    IF auth[c] = none THEN {Refused}
    ELSE IF s = bad THEN {NoAny} ELSE {Plain({"OK"}, {"ANY"})}
Check(c, s, r) == r \in CheckRes(c, s) /\ Did(c, "Check", s, none, r) /\ Same

\* "big" = a size no server can be expected to accept; it may still say OK
Sizes == {"small", "big"}
HaveSpaceRes(c, n, sz) ==
    IF auth[c] = none THEN {Refused}
    ELSE IF n = empty THEN {NoAny}
    ELSE IF sz = "big" \/ n \notin Holdable THEN {Plain({"OK", "NO"}, {"QUOTA", ""})}
    ELSE {Ok}
HaveSpace(c, n, sz, r) == r \in HaveSpaceRes(c, n, sz) /\ Did(c, "HaveSpace", n, sz, r) /\ Same

---------------------------------------------------------------------------
(* TLC can only split `\E r \in S : A(.., r)` into one named action per r   *)
(* (and so print r in the edge label) when S does not depend on the state. *)
(* These are the state-independent universes of results per command; the   *)
(* invariant Universes checks that they miss nothing.                      *)

CapabilityAll == {CapsR(o) : o \in Users \cup {none}}
NoopAll       == {Ok, OkCode("TAG")}
LogoutAll     == {Plain({"OK", "BYE"}, {"ANY"})}
DropAll       == {Plain({"NONE", "NO", "BYE"}, {"ANY"})}
StartTLSAll   == {NoAny}
AuthAll       == {Ok, NoAny, Alt(NoAny, "AuthzRefused"), Alt(Ok, "AuthzAsAuthcid")}
AuthJunkAll   == {NoAny}
UnauthAll     == {Refused, Ok}
UnknownAll    == {Refused, NoAny}
\* (the results only the single profile has are added there only: for "dict" the
\* universes, and with them the order in which TLC enumerates the successors of a
\* state - hence its -simulate behaviours for a seed - are what they always were)
DevAll(S)     == IF Single THEN {Dev(Ok, d) : d \in S} ELSE {}
SingleOnly(S) == IF Single THEN S ELSE {}
PutAll        == {Refused, NoAny, Ok, Alt(NoAny, "PutBadRefused"), Alt(Ok, "PutBadStored")}
                     \cup DevAll({"SinglePutOtherNameDropped"})
GetAll        == {Refused, NoAny, No("NONEXISTENT")} \cup {ScriptR(s) : s \in Contents}
ListAll       == {Refused} \cup {ListR(ns, a) : ns \in SUBSET Names, a \in SUBSET Names}
SetActiveAll  == {Refused, Ok, No("NONEXISTENT")}
                     \cup SingleOnly({NoAny, Plain({"OK", "NO"}, {"ANY"})})
                     \cup DevAll({"SingleSetActiveMissing"})
DeleteAll     == {Refused, NoAny, Ok, No("NONEXISTENT"), No("ACTIVE")}
                     \cup DevAll({"SingleDeleteActive", "SingleDeleteMissing"})
RenameAll     == {Refused, NoAny, Ok, No("NONEXISTENT"), No("ALREADYEXISTS")}
CheckAll      == {Refused, NoAny, Plain({"OK"}, {"ANY"})}
HaveSpaceAll  == {Refused, NoAny, Ok, Plain({"OK", "NO"}, {"QUOTA", ""})}

Universes ==
    \A c \in Conns :
        /\ CapabilityRes(c) \subseteq CapabilityAll
        /\ \A t \in {"plain", "tagged"} : NoopRes(c, t) \subseteq NoopAll
        /\ LogoutRes(c) \subseteq LogoutAll /\ StartTLSRes(c) \subseteq StartTLSAll
        /\ DropRes(c) \subseteq DropAll
        /\ \A u \in Users, how \in {"good", "badpw", "authz"} : AuthRes(c, u, how) \subseteq AuthAll
        /\ UnauthRes(c) \subseteq UnauthAll /\ UnknownRes(c) \subseteq UnknownAll
        /\ ListRes(c) \subseteq ListAll
        /\ \A s \in Contents : CheckRes(c, s) \subseteq CheckAll
        /\ \A n \in Names \cup {empty} :
              /\ GetRes(c, n) \subseteq GetAll /\ SetActiveRes(c, n) \subseteq SetActiveAll
              /\ DeleteRes(c, n) \subseteq DeleteAll
              /\ \A s \in Contents : PutRes(c, n, s) \subseteq PutAll
              /\ \A b \in Names \cup {empty} : RenameRes(c, n, b) \subseteq RenameAll
              /\ \A sz \in Sizes : HaveSpaceRes(c, n, sz) \subseteq HaveSpaceAll

---------------------------------------------------------------------------

Next ==
    \E c \in Conns :
        \/ \E r \in CapabilityAll : Capability(c, r)
        \/ \E t \in {"plain", "tagged"} : \E r \in NoopAll : Noop(c, t, r)
        \/ \E r \in LogoutAll : Logout(c, r)
        \/ \E r \in DropAll : Drop(c, r)
        \/ \E r \in StartTLSAll : StartTLS(c, r)
        \/ \E u \in AuthUsers(c), how \in AuthHows(c) : \E r \in AuthAll : Auth(c, u, how, r)
        \/ \E k \in JunkKinds(c) : \E r \in AuthJunkAll : AuthJunk(c, k, r)
        \/ \E r \in UnauthAll : Unauth(c, r)
        \/ \E r \in UnknownAll : Unknown(c, r)
        \/ \E n \in NameArgs(c), s \in ContArgs(c) : \E r \in PutAll : Put(c, n, s, r)
        \/ \E n \in NameArgs(c) : \E r \in GetAll : Get(c, n, r)
        \/ \E r \in ListAll : List(c, r)
        \/ \E n \in NameArgs(c) \cup {empty} : \E r \in SetActiveAll : SetActive(c, n, r)
        \/ \E n \in NameArgs(c) : \E r \in DeleteAll : Delete(c, n, r)
        \/ \E a \in NameArgs(c), b \in NameArgs(c) : \E r \in RenameAll : Rename(c, a, b, r)
        \/ \E s \in ContArgs(c) : \E r \in CheckAll : Check(c, s, r)
        \/ \E n \in NameArgs(c), sz \in Sizes : \E r \in HaveSpaceAll : HaveSpace(c, n, sz, r)

Spec == Init /\ [][Next]_vars

---------------------------------------------------------------------------
(* The model's own properties *)

TypeOK ==
    /\ auth \in [Conns -> Users \cup {none}]
    /\ store \in [Users -> [Names -> Contents \cup {none}]]
    /\ active \in [Users -> SUBSET Names]
    /\ last.conn \in Conns \cup {none}
    /\ last.cmd \in AllCmds
    /\ last.res \in ResultT

AtMostOneActive == \A u \in Users : Cardinality(active[u]) <= 1
ActiveIsStored  == \A u \in Users : active[u] \subseteq Dom(u)
OnlyOwnUser     == \A c \in Conns : auth[c] # none => auth[c] \in MayAuth(c)

\* LISTSCRIPTS lists exactly the stored names and marks the active one
ListExact == (last.cmd = "List" /\ auth[last.conn] # none) =>
                 /\ last.res.kind = "list" /\ last.res.cls = {"OK"}
                 /\ last.res.names = Dom(auth[last.conn])
                 /\ last.res.act = active[auth[last.conn]]

\* nothing but the five pre-authentication commands has any effect on an
\* unauthenticated connection, and every such command is refused
Gate == [][(auth[last'.conn] = none /\ last'.cmd \notin PreAuthCmds \cup {"Drop"})
             => (UNCHANGED base /\ last'.res.cls \subseteq {"NO", "BYE"}
                 /\ last'.res.kind = "plain")]_vars

\* an incomplete command does nothing
DropDoesNothing == [][last'.cmd = "Drop" =>
                        (UNCHANGED <<store, active>> /\ auth'[last'.conn] = none
                         /\ \A c \in Conns \ {last'.conn} : auth'[c] = auth[c])]_vars

\* only a successful AUTHENTICATE turns an unauthenticated connection into an
\* authenticated one
OnlyAuthAuthenticates ==
    [][\A c \in Conns : (auth[c] = none /\ auth'[c] # none)
          => (last'.conn = c /\ last'.cmd = "Auth" /\ last'.res.cls = {"OK"}
              /\ last'.a = auth'[c] /\ last'.b \in {"good", "authz"})]_vars

\* a command touches at most the scripts of the user its connection is
\* authenticated as
Isolation == [][\A u \in Users : (store'[u] # store[u] \/ active'[u] # active[u])
                    => auth[last'.conn] = u]_vars

\* PUTSCRIPT then GETSCRIPT (same connection or any connection of that user)
PutThenGet == [][(last.cmd = "Put" /\ last.res.cls = {"OK"} /\ last'.cmd = "Get"
                  /\ auth[last'.conn] = auth[last.conn] /\ auth[last.conn] # none
                  /\ last'.a = last.a)
                   => (last'.res.kind = "script" /\ last'.res.body = last.b)]_vars

\* RENAMESCRIPT keeps content and active status and touches nothing else
RenameKeeps == [][(last'.cmd = "Rename" /\ last'.res.cls = {"OK"}) =>
                   LET u == auth[last'.conn]  a == last'.a  b == last'.b IN
                   /\ store[u][a] # none /\ store[u][b] = none
                   /\ store'[u][b] = store[u][a] /\ store'[u][a] = none
                   /\ (a \in active[u]) = (b \in active'[u])
                   /\ Cardinality(active'[u]) = Cardinality(active[u])
                   /\ \A n \in Names \ {a, b} : store'[u][n] = store[u][n]]_vars

\* an active script never disappears, except that a rename moves it
ActiveNotDeleted == [][\A u \in Users : \A n \in active[u] :
                         store'[u][n] = none =>
                             (last'.cmd = "Rename" /\ last'.a = n /\ last'.b \in active'[u]
                              /\ store'[u][last'.b] = store[u][n])]_vars

\* a stored script changes only by PUTSCRIPT of that name, DELETESCRIPT of
\* that name or RENAMESCRIPT from/to that name
MapFrame == [][\A u \in Users, n \in Names : store'[u][n] # store[u][n] =>
                  \/ last'.cmd = "Put" /\ last'.a = n
                  \/ last'.cmd = "Delete" /\ last'.a = n
                  \/ last'.cmd = "Rename" /\ n \in {last'.a, last'.b}]_vars

\* SETACTIVE of a name answered OK makes it the active one (the one LISTSCRIPTS
\* marks)
SetActiveTakes == [][(last'.cmd = "SetActive" /\ last'.res.cls = {"OK"}
                      /\ auth[last'.conn] # none /\ last'.a # empty)
                        => last'.a \in active'[auth[last'.conn]]]_vars

\* DELETESCRIPT answered OK deleted a script that was there
DeleteRemoves == [][(last'.cmd = "Delete" /\ last'.res.cls = {"OK"}
                     /\ auth[last'.conn] # none)
                       => /\ store[auth[last'.conn]][last'.a] # none
                          /\ store'[auth[last'.conn]][last'.a] = none]_vars

\* the single store: only the holdable name is ever stored and what is stored
\* is the active script
SingleShape == Single => \A u \in Users : Dom(u) \subseteq Holdable /\ active[u] = Dom(u)

\* the clause of the property each deviation contradicts (TLC confirms it: the
\* model with Open = {d} violates Clause(d), see harness/checks/c19.py)
DevClause == [SinglePutOtherNameDropped |-> "PutThenGet",
              SingleDeleteActive        |-> "ActiveNotDeleted",
              SingleSetActiveMissing    |-> "SetActiveTakes",
              SingleDeleteMissing       |-> "DeleteRemoves"]

\* the graph that is replayed on the real server forgets `last` (the result is
\* in the edge label)
BaseView == base
=============================================================================
