------------------------------ MODULE WireResp ------------------------------
(***************************************************************************)
(* C07, serialisation side: how pymap chooses and writes the wire form of  *)
(* a string it sends (parsing/primitives.py: String.build,                 *)
(* QuotedString.__bytes__, LiteralString.__bytes__), transcribed over      *)
(* sequences of byte classes, with the response grammar's acceptor for a   *)
(* quoted string as a predicate.  TLC enumerates every value up to MaxLen  *)
(* (x short / long) and checks in each state:                              *)
(*   WellFormed   the bytes written parse under the grammar                *)
(*   RoundTrip    ... to the value that was to be sent                     *)
(*                                                                         *)
(* Classes: CH printable 7-bit other than DQ BS SP; SP; DQ; BS; CR; LF;    *)
(* NUL; HI (8-bit).  long = the value is padded with CH to >= 64 bytes.    *)
(*                                                                         *)
(* Deviations of the pinned tree (named, enabled when in Devs):            *)
(*   "CRQuoted"  a value containing a bare CR is sent as a quoted string   *)
(*   "HiQuoted"  a bytes value containing 8-bit bytes is sent quoted       *)
(***************************************************************************)
EXTENDS Naturals, Sequences, TLC

CONSTANTS MaxLen, Devs

VARIABLES v, long
vars == <<v, long>>

Class == {"CH", "SP", "DQ", "BS", "CR", "LF", "NUL", "HI"}
Has(c) == \E i \in 1..Len(v) : v[i] = c

Init == v = <<>> /\ long \in BOOLEAN
Extend == /\ Len(v) < MaxLen
          /\ \E c \in Class : v' = Append(v, c)
          /\ UNCHANGED long
Spec == Init /\ [][Extend]_vars

\* String.build: "" for empty; quoted iff short and none of the forbidden bytes
Form == IF v = <<>> THEN "quoted"
        ELSE IF ~long /\ ~Has("LF") /\ ~Has("NUL")
                /\ ("CRQuoted" \in Devs \/ ~Has("CR"))
                /\ ("HiQuoted" \in Devs \/ ~Has("HI"))
             THEN "quoted" ELSE "literal"

\* QuotedString.__bytes__: DQ, each DQ / BS preceded by BS, DQ
RECURSIVE Esc(_)
Esc(s) == IF s = <<>> THEN <<>>
          ELSE (IF Head(s) \in {"DQ", "BS"} THEN <<"BS", Head(s)>> ELSE <<Head(s)>>) \o Esc(Tail(s))
Wire == <<"DQ">> \o Esc(v) \o <<"DQ">>

\* the grammar: quoted = DQUOTE *QUOTED-CHAR DQUOTE;
\* QUOTED-CHAR = TEXT-CHAR except quoted-specials / "\" quoted-specials; TEXT-CHAR = 7-bit, not CR LF NUL
RECURSIVE Body(_)
Body(s) ==          \* <<ok, value>> of the part between the quotes
  IF s = <<>> THEN <<TRUE, <<>>>>
  ELSE IF Head(s) = "BS"
       THEN IF Len(s) >= 2 /\ s[2] \in {"DQ", "BS"}
            THEN LET r == Body(SubSeq(s, 3, Len(s))) IN <<r[1], <<s[2]>> \o r[2]>>
            ELSE <<FALSE, <<>>>>
       ELSE IF Head(s) \in {"DQ", "CR", "LF", "NUL", "HI"} THEN <<FALSE, <<>>>>
       ELSE LET r == Body(Tail(s)) IN <<r[1], <<Head(s)>> \o r[2]>>

Parsed == IF Len(Wire) >= 2 /\ Wire[1] = "DQ" /\ Wire[Len(Wire)] = "DQ"
          THEN Body(SubSeq(Wire, 2, Len(Wire) - 1)) ELSE <<FALSE, <<>>>>

WellFormed == Form = "quoted" => Parsed[1]
RoundTrip  == Form = "quoted" => Parsed[2] = v
\* a literal announces len(payload) and sends the payload verbatim: nothing to go wrong
\* in the model; the binding compares the announced count with the bytes that follow.
=============================================================================
