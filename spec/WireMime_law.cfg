SPECIFICATION Spec
CONSTANTS
  MaxLen = 4
  Fixed = {}
INVARIANT Fidelity
