SPECIFICATION Spec
CONSTANTS
  MaxLines = 5
  Prefix <- PrefixNone
  Alphabet <- AlphaAll
  Fixed <- AllDevs
INVARIANT TypeOK
INVARIANT Fidelity
INVARIANT PartSize
