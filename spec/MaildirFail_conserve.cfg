\* what holds under failing lock removals and lock time-outs: nothing is lost
SPECIFICATION SpecF
CONSTANTS
  Names = {"INBOX", "Box"}
  MaxMsgs = 2
  MaxOps = 3
  MaxSel = 2
  MaxCrashes = 1
  MaxFails = 1
  FlagSet = {"S"}
  AppendFlags = {{}}
  Dev = {"MoveKeepsSourceRecord"}
  Tol = {"MoveKeepsSourceRecord"}
  OtherFs = FALSE
  Virgin = FALSE
  Existing = {"Box"}
INVARIANT TypeOK
INVARIANT RefusedConserves
INVARIANT MoveFileSomewhere
CHECK_DEADLOCK FALSE
