\* sanity of the reference model on the maildir stores, with the names a
\* store cannot hold: no deviations, every allowed outcome
SPECIFICATION SpecRFC
CONSTANTS
  CreateArgs <- OddRCreate
  NameArgs <- OddRName
  AppendArgs = {}
  SubArgs <- OddRSub
  RenameArgs <- OddRRename
  ListQ <- OddListQ
  LsubQ = {}
  InitSets <- None
  MaxMsgs = 1
  MaxLen = 3
  AllOpen = {}
  Stores = {"pp", "fs"}
INVARIANT TypeOK
INVARIANT MatcherSane
PROPERTY FailChangesNothing
PROPERTY InboxProtected
PROPERTY RenamePreserves
PROPERTY EffectsExact
PROPERTY Conservation
CHECK_DEADLOCK FALSE
